#!/bin/bash
# tools/selftest.sh [name-pattern]: sensitivity self-test. For every seeded change under /verif/seeded/
# apply the patch to /repo, run the quick tier of the property it was written against (and, if that
# passes, the other checks named in meta.json), expect exit 1, and restore /repo. Not a registered
# check; run by hand. Prints one line per seeded change and a summary.
set -u
ROOT="$(cd "$(dirname "$0")/.." && pwd)"
PAT="${1:-}"
ok=0; bad=0
# the witnesses of the recorded known findings must still reproduce on the unchanged tree (a .case file
# stores decisions, not inputs: a generator change in front of them silently changes what they denote)
if [ -z "$PAT" ]; then
  for P in $(grep '^known:' "$ROOT/known_findings.txt" | sed -E 's/^known: property=(C[0-9]+) .*/\1/' | sort -u); do
    if (cd "$ROOT" && ./check "$P" quick 2>&1) | grep '^KNOWN-FINDING' | grep -qv 'witness reproduces'; then
      echo "$P: a known-finding witness does NOT reproduce any more"; bad=$((bad+1))
    else
      echo "$P: known-finding witness reproduces"
    fi
  done
fi
if [ -n "$(git -C /repo status --short | grep -v '^??')" ]; then echo "refusing: /repo has uncommitted changes"; exit 2; fi
for d in "$ROOT"/seeded/*${PAT}*/; do
  name=$(basename "$d")
  own=$(python3 -c "import json,sys; print(json.load(open('$d/meta.json'))['property'])")
  others=$(python3 -c "
import json,re
m=json.load(open('$d/meta.json'))
s=set(re.findall(r'C\d\d', ' '.join(m.get('detected_by',[]))))
s.discard('$own'); print(' '.join(sorted(s)))")
  if ! git -C /repo apply --3way "$d/patch.diff" >/dev/null 2>&1; then
    git -C /repo reset -q ; git -C /repo checkout -q -- .
    echo "$name: PATCH-DOES-NOT-APPLY"; bad=$((bad+1)); continue
  fi
  git -C /repo reset -q
  caught=""
  for P in $own $others; do
    out=$(cd "$ROOT" && ./check "$P" quick 2>&1); code=$?
    if [ $code -eq 1 ]; then caught="$P"; break; fi
    if [ $code -eq 2 ]; then caught="INCONCLUSIVE($P)"; break; fi
  done
  git -C /repo checkout -q -- .
  if [ -n "$caught" ] && [ "${caught#INCONCLUSIVE}" = "$caught" ]; then echo "$name: caught by $caught"; ok=$((ok+1)); else echo "$name: NOT CAUGHT ($caught)"; bad=$((bad+1)); fi
done
echo "selftest: caught=$ok missed_or_broken=$bad"
[ $bad -eq 0 ]
