NOT_CLAIMED_REASON = {}
CLAIMED = {
 "C08": {
  "text": "Generated registration histories (incl. bulk registrations that cross 2^16 entries per kind, implicit registration by parse/html5(), Xot::clone) compared after every step with reference string<->id maps; all ids issued so far are re-resolved after bulk and clone steps. Exploration only: absence of a counterexample within the explored histories.",
  "note": "Trusted: the harness's reference maps; bounds: <= 120 steps, <= 2^17 registrations per kind. Plan hist-parse: generated documents with PIs (target ids checked) and rejected documents that introduce new strings before the error, followed by new registrations.",
  "technique": "property-based testing (proptest-generated histories, model-based oracle, shrinking to replay file)",
 },
 "C04": {
  "text": "Generated call histories over forests (whole mutating API, operands = any live node of any kind incl. ones the call must refuse) with all structural invariants, handle-liveness and handle-kind rules re-checked on a bounded, cycle-safe snapshot after every step; plus an exhaustive small-scope sweep of every (tree <= 4 nodes, operation, operand tuple). Exploration: no counterexample within the explored histories / the complete small scope.",
  "note": "Trusted: the snapshot code (bridge) and xot's primitive accessors parent/all_traverse/value/is_removed. Bounds: <= 200 ops, <= 60 start nodes. Extra plans: start forests with adjacent / empty text nodes (small-adjacent exhaustive, hist-adjacent) and with trees made by the parser from generated rich renderings (hist-parsed).",
  "technique": "stateful property-based testing (proptest-generated histories, invariant after every step) + small-scope exhaustive enumeration",
 },
 "C05": {
  "text": "Model-based stateful testing: an ordered-forest reference model written from the crate documentation is run in lock-step with xot on generated histories of precondition-satisfying calls; after every call the whole store (structure, values, order, liveness, return value, string_value of every ancestor) must equal the model. The small-scope plan enumerates all (tree <= 4 nodes, valid operation, operands) triples with consolidation on and off.",
  "note": "Trusted: the forest model (model/forest.rs) as specification; survivor identity of merged text nodes deliberately not prescribed.",
  "technique": "model-based stateful property-based testing + small-scope exhaustive enumeration",
 },
 "C06": {
  "text": "Same history generator as C04 with every operand tuple; the oracle needs no model: any panic except the three documented ones is a violation, and after every call that returned Err the complete observation (snapshot of all trees, serialisation of all roots, liveness of all handles) must equal the one taken before the call. Exhaustive over the small scope.",
  "note": "Trusted: snapshot code and to_string as observation; documented panics matched by message.",
  "technique": "stateful property-based testing with before/after metamorphic oracle + small-scope exhaustive enumeration",
 },
 "C07": {
  "text": "For every node (attribute and namespace nodes included) of generated trees, of forests left behind by generated manipulation histories, and of ALL trees with <= 5 nodes, every traversal entry point and every Axis value is compared with the answer derived from a reference parent/child structure, and the XPath partition/order laws are checked on xot's own answers; all iterators bounded so non-termination is reported.",
  "note": "Trusted: reference forest (handles known from the creation API, not from traversal code).",
  "technique": "property-based testing with a reference model (differential per entry point) + small-scope exhaustive enumeration",
 },
 "C11": {
  "text": "Generated histories of map-style and node-style updates on two elements; after every step every read accessor of the read-only AND the mutable view is compared with a reference insertion-ordered map (values, node handles, return values), and the declaration/attribute order is confirmed on outputs() and on the start tag read by an independent tokenizer. All single-step histories over a 2-key pool are enumerated.",
  "note": "Trusted: reference Vec-based map; xmltok tokenizer.",
  "technique": "model-based stateful property-based testing + small-scope exhaustive enumeration",
 },
 "C02": {
  "text": "Generated abstract documents are spelled by a harness-owned lexical renderer (references, CDATA runs, CR/CRLF line ends, literal whitespace in attributes, alias prefixes, interleaved declarations, XML declaration, BOM, encodings) and parsed through every entry point; the tree read back must equal the document the renderer - not xot - says the text denotes, xml_id_node included; parse_fragment is additionally compared with parsing the text wrapped in one element.",
  "note": "Trusted: the renderer's notion of what a spelling denotes (XML 1.0 line-end / attribute-value normalisation, Namespaces scoping). Attribute/declaration order not compared. One recorded known finding (an XML declaration with a line break or TAB directly after '<?xml' is rejected by the tokenizer crate xot depends on) is excluded by construction and counted.",
  "technique": "property-based testing with generator-owned expected answer (inverse oracle) + metamorphic relation for fragments",
 },
 "C03": {
  "text": "Fault enumeration over a catalogue of 21 well-formedness-breaking edits applied to generated accepted renderings (each edit ill-formed by construction, must be rejected by every applicable entry point), plus token-soup / raw-byte / Unicode garbage through all entry points with a never-panic oracle and a closing-the-loop oracle on everything accepted (C04 invariants, validate_well_formed_document, serialise, reparse, deep_equal).",
  "note": "Trusted: the applicability predicates of the damage catalogue; constraints outside the statement's list are not asserted. libFuzzer campaigns are an additional thorough-tier driver of the same oracle.",
  "technique": "property-based fault injection (damage catalogue) + generated garbage fuzzing with round-trip oracle",
 },
 "C17": {
  "text": "The renderer records the byte range of every item it writes; parse_with_span_info / parse_fragment_with_span_info must report exactly those ranges for every element start/end, attribute name/value, text (merged runs), comment and PI target/content, on char boundaries, and the slices must decode to the node values. ParseError spans of damaged inputs must lie inside the source on char boundaries.",
  "note": "Trusted: the renderer's offset bookkeeping and the span conventions documented in DESIGN.md C17. Non-ASCII prefixes and empty CDATA sections inside text runs are generated.",
  "technique": "property-based testing with generator-recorded offsets as oracle + generated faulty inputs for error spans",
 },
 "C01": {
  "text": "Generated well-scoped, XML-representable trees (full XML Char alphabet, shadowing, xmlns=\"\" undeclaration) built by three routes are serialised (whole tree or a non-root element), reparsed, and the read-back compared with the generator's abstract tree (names, attribute sets, text, comments, PIs, per-element declaration maps; inherited bindings on a sub-element's top tag per the scope model) plus deep_equal.",
  "note": "Round trip through xot's own parser as the statement says, plus a second reading of the same output by an independent tokenizer + namespace resolver (serializer and parser defects that cancel in a round trip do not cancel there). Plan api-free adds layouts only the API can build (no-namespace elements below a default namespace without xmlns=\"\"): to_string must succeed when every namespaced name has a usable prefix.",
  "technique": "property-based round-trip testing with model-owned expected tree",
 },
 "C14": {
  "text": "Generated (tree, parameter set) pairs: every subset of the tree's element names as CDATA-section / suppress list, unescaped_gt, declaration variants, indentation. Non-indented output must reparse to the source tree; indented output is compared by a parallel walk that allows only added whitespace-only text and none under mixed content, xml:space=preserve (innermost wins) or suppressed elements.",
  "note": "Trusted: the parallel-walk oracle; doctype parameter excluded (see DESIGN).",
  "technique": "property-based round-trip / metamorphic testing over generated configurations",
 },
 "C16": {
  "text": "For generated trees, start nodes and token parameters the token stream, the pretty token stream and the Write-based entry points are compared byte for byte with the string serialisations, and outputs() with an event list generated from the reference tree (node tags included; inherited Prefix events on the top element checked against the scope model).",
  "note": "Differential between entry points of the same serializer plus a model-generated event grammar. Write entry points are driven into a Vec and into a writer that accepts 1..7 bytes per call; empty text nodes (API-only) are part of the trees.",
  "technique": "property-based differential testing between API entry points + model-generated expected event stream",
 },
 "C13": {
  "text": "Generated pairs/triples (one semantic edit, respelling only, unrelated, single nodes of all 7 kinds, all pairs of trees <= 3 nodes): deep_equal in both directions == equality of model canonical forms, reflexive, transitive; deep_equal_xpath under two comparators, advanced_deep_equal under generated filters, deep_equal_children, shallow_equal, shallow_equal_ignore_attributes with present/absent/repeated names and string_value each compared with a model computed on the abstract trees.",
  "note": "Trusted: canonical form and filtered-edge model (props/c13.rs).",
  "technique": "property-based testing against a canonical-form reference model (metamorphic pairs: respell = equal, one edit = canon decides)",
 },
 "C20": {
  "text": "Each generated document/element is built by parsing a canonical rendering, by fixed::Document/Element::xotify and by stepwise creation in a generated construction order; the three read-backs must equal the abstract document exactly (declaration, attribute and top-level sibling order included), be pairwise deep_equal and serialise byte-identically.",
  "note": "Trusted: canonical renderer and read-back. A fourth route builds every text node from up to three pieces (append / prepend / insert_before / insert_after next to the run or its neighbour) and must end in the same tree.",
  "technique": "property-based differential testing between three construction routes",
 },
 "C09": {
  "text": "For every node (attribute and namespace nodes included) of generated trees with free declaration layouts, and every prefix and namespace known to the Xot, all scope queries and reported qualified names are compared with an independent nearest-declaration-wins scope model using the element/attribute resolution rules of Namespaces in XML.",
  "note": "One recorded known finding (no-namespace element name under a default namespace has no correct spelling in the name API) is excluded by construction and counted; is_prefix_defined for unbound prefixes and Err results are not asserted.",
  "technique": "property-based testing against an independent scope model",
 },
 "C10": {
  "text": "(a) any generated tree with a free declaration layout: to_string must fail or yield text that an INDEPENDENT tokenizer + Namespaces resolver reads back with exactly the tree's expanded names; (b) generated repair histories (move/clone away from declarations, remove declarations, add names in fresh namespaces, create_missing_prefixes on document / fragment / element, <= 6 rounds): serialisation must then succeed, reparse deep_equal, keep content and all earlier declarations, and pass (a).",
  "note": "Trusted: xmltok + scope model as the independent reader. A no-namespace element that declares a default namespace on itself is outside what prefixes can repair and is not generated in (b).",
  "technique": "property-based testing with an independent reader as oracle + stateful repair histories",
 },
 "C15": {
  "text": "Generated well-scoped trees seeded with redundant / aliased / shadowed declarations: after deduplicate_namespaces every element's declaration map is a sub-map of the old one, content is unchanged, serialisation still succeeds and reparses to the same content, and a second call is a no-op.",
  "note": "Precondition (serialises before) is checked and counted, not assumed. Plan trees-stripped covers API-only layouts (no-namespace elements below a default namespace without xmlns=\"\").",
  "technique": "property-based testing with before/after metamorphic oracle and idempotence law",
 },
 "C12": {
  "text": "clone_node: forest model in lock-step (C05 machinery); the clone must be parentless, equal to the model's copy (adjacent text merged iff consolidation is on), made of never-seen handles, and a generated mutation history confined to one side must leave the whole store equal to the model, i.e. the other side untouched. clone_with_prefixes: declarations superset, and if the source tree serialises the clone serialises alone to the same expanded names (independent reader). Xot::clone: equal read-backs, independence in both directions.",
  "note": "Trusted: forest model and xmltok reader. Xot::clone also has to carry the xml:id index (xml_id_node compared in both stores).",
  "technique": "model-based stateful property-based testing + independent-reader oracle",
 },
 "C18": {
  "text": "Generated trees rich in whitespace-only / mixed text (adjacent text siblings, non-XML Unicode spaces, nested xml:space values) and any start node: the nodes removed must be exactly those selected by the model predicate; the whole store is compared with the reference forest (handles included) and a second call must be a no-op.",
  "note": "Trusted: model predicate written from the property statement.",
  "technique": "model-based property-based testing with idempotence law",
 },
 "C19": {
  "text": "Generated trees mixing HTML names in any letter case with no namespace, the real XHTML namespace, MathML, SVG and foreign namespaces, plus single detached nodes and text under a document node, under generated parameters (indentation, suppress, CDATA-section elements): never a panic; Ok output starts with the doctype and an independent HTML-flavoured tokenizer aligned with the model confirms the unprefixed / never-self-closed / end-tag-iff-not-void rules, the default namespace in force for MathML/SVG, the escaping rules for text and attribute values, and refusal of PIs containing '>'.",
  "note": "Trusted: htmltok tokenizer and the aligner; one recorded known finding (the https look-alike of the XHTML URI, pinned by the library's own tests) is excluded by construction and counted. Spelling of foreign-namespace elements is not asserted (not stated).",
  "technique": "property-based testing with an independent tokenizer aligned against the generator's model",
 },
}
