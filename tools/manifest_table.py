NOT_CLAIMED_REASON = {}
CLAIMED = {
 "C08": {
  "text": "Generated registration histories (incl. bulk registrations that cross 2^16 entries per kind, implicit registration by parse/html5(), Xot::clone) compared after every step with reference string<->id maps; all ids issued so far are re-resolved after bulk and clone steps. Exploration only: absence of a counterexample within the explored histories.",
  "note": "Trusted: the harness's reference maps; bounds: <= 120 steps, <= 2^17 registrations per kind.",
  "technique": "property-based testing (proptest-generated histories, model-based oracle, shrinking to replay file)",
 },
}
