#!/bin/bash
# usage: tools/try_mutant.sh <dir with patch.diff demo.rs meta.json> <Cxx> [<Cyy> ...]
# 1. validates the mutant in a scratch worktree (suite passes with patch, demo fails with / passes without)
# 2. applies it to /repo, runs the named quick checks, and undoes it
set -u
D="$1"; shift
WT=/tmp/wt-verify
if [ ! -d $WT ]; then git -C /repo worktree add -q --detach $WT HEAD || exit 2; fi
git -C $WT checkout -q --detach $(git -C /repo rev-parse HEAD) && git -C $WT checkout -q -- . && rm -f $WT/tests/demo_mutant.rs
export CARGO_TARGET_DIR=/tmp/wt-verify-target CARGO_NET_OFFLINE=true
if ! git -C $WT apply --3way "$D/patch.diff" 2>/tmp/apply.err; then echo "RESULT patch does not apply"; cat /tmp/apply.err; exit 3; fi
git -C $WT diff HEAD > "$D/patch.rebased.diff"
suite=$(cd $WT && cargo test --offline 2>&1 | grep -E "^test result" | awk '{p+=$4; f+=$6} END {print p" "f}')
cp "$D/demo.rs" $WT/tests/demo_mutant.rs
demo_with=$(cd $WT && cargo test --offline --test demo_mutant 2>&1 | grep -E "^test result" | awk '{p+=$4; f+=$6} END {print p" "f}')
git -C $WT checkout -q -- . ; git -C $WT reset -q --hard HEAD
cp "$D/demo.rs" $WT/tests/demo_mutant.rs
demo_without=$(cd $WT && cargo test --offline --test demo_mutant 2>&1 | grep -E "^test result" | awk '{p+=$4; f+=$6} END {print p" "f}')
rm -f $WT/tests/demo_mutant.rs
echo "suite(with patch) passed/failed: $suite | demo with patch: $demo_with | demo without: $demo_without"
unset CARGO_TARGET_DIR
# now against the real checks
if ! git -C /repo apply "$D/patch.rebased.diff"; then echo "RESULT cannot apply to /repo"; exit 3; fi
for P in "$@"; do
  out=$(cd /verif && ./check $P quick 2>&1); code=$?
  echo "CHECK $P exit=$code :: $(echo "$out" | grep -E '^(failure|VIOLATION|INCONCLUSIVE)' | head -2 | cut -c1-400)"
done
git -C /repo checkout -- .
git -C /repo status --short | grep -v '^??' | head -3
