#!/usr/bin/env python3
"""Regenerates /verif/MANIFEST.json from the table below (kept in one place so the manifest always validates)."""
import json, os, sys
ROOT = os.path.dirname(os.path.dirname(os.path.abspath(__file__)))
sys.path.insert(0, os.path.join(ROOT, "tools"))
from manifest_table import CLAIMED, NOT_CLAIMED_REASON

props = [json.loads(l) for l in open(os.path.join(ROOT, "properties.jsonl"))]
checks, na = [], []
for p in props:
    pid = p["id"]
    if pid in CLAIMED:
        c = CLAIMED[pid]
        checks.append({
            "property_id": pid,
            "quick_cmd": f"./check {pid} quick",
            "thorough_cmd": f"./check {pid} thorough",
            "evidence_file": f"evidence/{pid}.json",
            "replay_cmd_template": f"./check replay {pid} {{path}}",
            "engine": "xvf",
            "level_claimed": {"category": "exploration", "text": c["text"], "design_ref": c.get("design_ref", f"DESIGN.md §5 {pid}")},
            "level_note": c["note"],
            "technique": c["technique"],
        })
    else:
        na.append({"property_id": pid, "reason": NOT_CLAIMED_REASON.get(pid, "check not built yet in this session; not claimed rather than claimed with a weak check")})
m = {
    "version": 1,
    "setup_cmd": "cd harness && CARGO_NET_OFFLINE=true cargo build --release --offline",
    "hooks": {
        "guard": "xot_verif",
        "enable": "no hooks are needed: every observation goes through xot's public API; the harness depends on /repo by path, so each check rebuilds from the current working tree",
        "baseline_off_cmd": "cd /repo && cargo nextest run --workspace --no-fail-fast --offline || cargo test --workspace --no-fail-fast --offline",
        "source_commits": [],
        "add_only": True,
    },
    "engines": [{
        "name": "xvf",
        "path": "harness/",
        "serves_properties": sorted(CLAIMED.keys()),
        "kind_free_text": "Rust harness: proptest-generated case bytes (16 deterministic shards from VERIF_SEED) + small-scope exhaustive enumeration of the same decoders' decision trees + regression-corpus replay; explicit reference models as oracles; proptest + byte-level shrinking to a replay file",
    }],
    "checks": checks,
    "notes": "Exit codes: 0 held, 1 VIOLATION line, 2 inconclusive (build failure, watchdog). known_findings.txt lists recorded/fixed defects; see DESIGN.md.",
    "not_applicable": na,
}
json.dump(m, open(os.path.join(ROOT, "MANIFEST.json"), "w"), indent=1)
print("claimed", len(checks), "unclaimed", len(na))
