#!/usr/bin/env python3
"""Regenerate the quick-tier budget table of DESIGN.md §3.5 (between the BUDGETTABLE markers) from
the evidence files of the last quick run of every check. Not a registered check."""
import json, os, re
root = os.path.dirname(os.path.dirname(os.path.abspath(__file__)))
rows = ["| property | quick: generated cases | plans | wall |", "|---|---|---|---|"]
def fmt(n): return f"{n:,}".replace(",", " ")
total = 0.0
for i in range(1, 21):
    pid = "C%02d" % i
    e = json.load(open(os.path.join(root, "evidence", pid + ".json")))
    if e.get("tier") != "quick":
        raise SystemExit(pid + ": evidence is not from a quick run")
    plans = e["coverage"]["plans"]
    cases = sum(p["cases"] for p in plans)
    desc = ", ".join("%s %s%s" % (p["plan"], fmt(p["cases"]), " (**exhaustive**)" if p.get("exhaustive") else "") for p in plans)
    total += e["wall_s"]
    rows.append("| %s | %s | %s | %.0f s |" % (pid, fmt(cases), desc, e["wall_s"]))
rows.append("| all 20 | | | %.0f s |" % total)
p = os.path.join(root, "DESIGN.md")
s = open(p).read()
s2 = re.sub(r"(<!-- BEGIN BUDGETTABLE -->\n).*?(<!-- END BUDGETTABLE -->)", lambda m: m.group(1) + "\n".join(rows) + "\n" + m.group(2), s, flags=re.S)
if s2 == s and "BEGIN BUDGETTABLE" not in s:
    raise SystemExit("markers not found")
open(p, "w").write(s2)
print("budget rows=%d total_wall=%.0fs" % (len(rows) - 3, total))
