#!/bin/bash
# tools/revert_selftest.sh [nocorpus]: sensitivity against the REAL defects of the pinned tree.
# For every "fixed:" line of known_findings.txt the fix commit is reverted in /repo's working
# tree (not committed), the quick tier of the property that found it is run, exit 1 is expected,
# and /repo is restored. With the argument "nocorpus" the saved witnesses are not replayed
# (XVF_NO_CORPUS=1), so the generated search alone has to find the defect again within the
# quick budget. Fixes whose reverse patch no longer applies (later fixes rewrote the same lines)
# are reported as SKIP. Not a registered check; run by hand.
set -u
ROOT="$(cd "$(dirname "$0")/.." && pwd)"
MODE="${1:-corpus}"
if [ -n "$(git -C /repo status --short | grep -v '^??')" ]; then echo "refusing: /repo has uncommitted changes"; exit 2; fi
ok=0; miss=0; skip=0
while read -r line; do
  prop=$(echo "$line" | sed -E 's/^fixed: property=(C[0-9]+) .*/\1/')
  commit=$(echo "$line" | awk '{print $3}')
  if ! git -C /repo diff "$commit~1" "$commit" -- src | git -C /repo apply -R --3way >/dev/null 2>&1; then
    git -C /repo reset -q ; git -C /repo checkout -q -- .
    echo "$commit $prop: SKIP (reverse patch does not apply)"; skip=$((skip+1)); continue
  fi
  git -C /repo reset -q
  if ! (cd /repo && cargo build --offline -q 2>/dev/null); then
    git -C /repo checkout -q -- .
    echo "$commit $prop: SKIP (tree does not compile with the fix reverted)"; skip=$((skip+1)); continue
  fi
  if [ "$MODE" = "nocorpus" ]; then
    out=$(cd "$ROOT" && XVF_NO_CORPUS=1 ./check "$prop" quick 2>&1); code=$?
  else
    out=$(cd "$ROOT" && ./check "$prop" quick 2>&1); code=$?
  fi
  git -C /repo checkout -q -- .
  if [ $code -eq 1 ]; then echo "$commit $prop: caught"; ok=$((ok+1));
  else echo "$commit $prop: NOT CAUGHT (exit $code)"; miss=$((miss+1)); fi
done < <(grep '^fixed:' "$ROOT/known_findings.txt")
echo "revert-selftest mode=$MODE caught=$ok missed=$miss skipped=$skip"
[ $miss -eq 0 ]
