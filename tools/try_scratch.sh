#!/bin/bash
# tools/try_scratch.sh <dir with patch.diff demo.rs meta.json> <Cxx> [<Cyy> ...]
# Like tools/try_mutant.sh but never touches /repo (usable while a long run is reading /repo):
#  1. in the scratch worktree /tmp/wt-verify: the whole suite passes with the patch, the demo fails with it
#     and passes without it;
#  2. the patch is applied to a second scratch worktree (/tmp/wt-mut); a copy of the harness
#     (/tmp/h2root/harness, path dependency redirected to /tmp/wt-mut, corpus and known findings
#     shared with /verif) is rebuilt and the named quick checks run against it.
# Scratch directories are created on first use; remove them when done:
#   git -C /repo worktree remove --force /tmp/wt-mut; git -C /repo worktree remove --force /tmp/wt-verify
#   rm -rf /tmp/h2root /tmp/wt-verify-target
# Not a registered check.
set -u
ROOT="$(cd "$(dirname "$0")/.." && pwd)"
D="$1"; shift
WT=/tmp/wt-verify; MUT=/tmp/wt-mut; H2=/tmp/h2root
export CARGO_NET_OFFLINE=true
[ -d $WT ] || git -C /repo worktree add -q --detach $WT HEAD || exit 2
[ -d $MUT ] || git -C /repo worktree add -q --detach $MUT HEAD || exit 2
HEAD=$(git -C /repo rev-parse HEAD)
git -C $WT checkout -q --detach $HEAD && git -C $WT checkout -q -- . && rm -f $WT/tests/demo_mutant.rs
git -C $MUT checkout -q --detach $HEAD && git -C $MUT checkout -q -- .
# XVF_EXTRA_PATCH=<file>: a repair of xot that is not committed to /repo yet (a long run is still reading
# /repo) is applied to both scratch worktrees first; the seeded change is then judged on top of it
if [ -n "${XVF_EXTRA_PATCH:-}" ]; then
  git -C $WT apply "$XVF_EXTRA_PATCH" && git -C $MUT apply "$XVF_EXTRA_PATCH" || { echo "RESULT extra patch does not apply"; exit 3; }
fi
mkdir -p $H2/evidence
rsync -a --delete --exclude target --exclude 'fuzz/target' --exclude 'fuzz/corpus' --exclude 'fuzz/artifacts' "$ROOT/harness" $H2/
sed -i 's#xot = { path = "/repo" }#xot = { path = "/tmp/wt-mut" }#' $H2/harness/Cargo.toml $H2/harness/deep/Cargo.toml
ln -sfn "$ROOT/corpus" $H2/corpus; cp "$ROOT/known_findings.txt" $H2/
if ! git -C $WT apply "$D/patch.diff" 2>/tmp/apply.err; then echo "RESULT patch does not apply"; cat /tmp/apply.err; exit 3; fi
suite=$(cd $WT && CARGO_TARGET_DIR=/tmp/wt-verify-target cargo test --offline 2>&1 | grep -E "^test result" | awk '{p+=$4; f+=$6} END {print p" "f}')
cp "$D/demo.rs" $WT/tests/demo_mutant.rs
demo_with=$(cd $WT && CARGO_TARGET_DIR=/tmp/wt-verify-target cargo test --offline --test demo_mutant 2>&1 | grep -E "^test result" | awk '{p+=$4; f+=$6} END {print p" "f}')
git -C $WT checkout -q -- .
[ -n "${XVF_EXTRA_PATCH:-}" ] && git -C $WT apply "$XVF_EXTRA_PATCH"
demo_without=$(cd $WT && CARGO_TARGET_DIR=/tmp/wt-verify-target cargo test --offline --test demo_mutant 2>&1 | grep -E "^test result" | awk '{p+=$4; f+=$6} END {print p" "f}')
rm -f $WT/tests/demo_mutant.rs
git -C $WT checkout -q -- .
echo "suite(with patch) passed/failed: $suite | demo with patch: $demo_with | demo without: $demo_without"
git -C $MUT apply "$D/patch.diff" || { echo "RESULT cannot apply to $MUT"; exit 3; }
( cd $H2/harness && cargo build --release --offline -q 2>/tmp/h2build.log ) || { echo "RESULT harness build failed"; tail -5 /tmp/h2build.log; git -C $MUT checkout -q -- .; exit 3; }
for P in "$@"; do
  out=$(cd $H2 && XVF_ROOT=$H2 $H2/harness/target/release/xvf check $P --tier quick 2>&1); code=$?
  echo "CHECK $P exit=$code :: $(echo "$out" | grep -E '^(failure|VIOLATION|INCONCLUSIVE)' | head -1 | cut -c1-400)"
done
git -C $MUT checkout -q -- .
