#!/bin/sh
# runs the repository's own test suite (guard off; there are no hooks) and prints pass/fail totals
cd /repo && cargo test --workspace --no-fail-fast --offline 2>&1 | grep -E "^test result" | awk '{p+=$4; f+=$6} END {print "passed="p" failed="f; exit (f>0)}'
