#!/bin/bash
# tools/fuzz_tier.sh <Cxx> <plan> <runs-per-job> [jobs]
# Coverage-guided campaign (libFuzzer via cargo-fuzz) over the SAME case bytes, decoder and oracle
# as the proptest driver. Corpus is seeded from /verif/corpus/<Cxx>/*.case. On a crash the artifact
# is converted into a .case file, replayed through `xvf replay` (strict) and reported as VIOLATION.
# exit 0 = nothing found, 1 = violation, 2 = inconclusive (build problem, libFuzzer internal error).
set -u
ROOT="$(cd "$(dirname "$0")/.." && pwd)"
P="$1"; PLAN="$2"; RUNS="$3"; JOBS="${4:-8}"
SEED="${VERIF_SEED:-1}"
export XVF_ROOT="$ROOT" XVF_PROP="$P" XVF_PLAN="$PLAN" CARGO_NET_OFFLINE=true
cd "$ROOT/harness" || exit 2
if ! cargo +nightly fuzz build -s none prop >"$ROOT/harness/fuzz-build.log" 2>&1; then
  echo "INCONCLUSIVE: fuzz target does not build (see harness/fuzz-build.log)"; exit 2
fi
C="$ROOT/harness/fuzz/corpus/$P-$PLAN"; A="$ROOT/harness/fuzz/artifacts/$P-$PLAN"
rm -rf "$C" "$A"; mkdir -p "$C" "$A"
# seed corpus: regression cases of this property (hex -> bytes) plus an empty input
: > "$C/empty"
for f in "$ROOT"/corpus/"$P"/*.case; do
  [ -f "$f" ] || continue
  hex=$(grep '^hex=' "$f" | head -1 | cut -d= -f2)
  [ -n "$hex" ] && echo -n "$hex" | xxd -r -p > "$C/$(basename "$f" .case)"
done
start=$(date +%s)
( cd "$A" && cargo +nightly fuzz run -s none prop "$C" -- -runs="$RUNS" -seed="$SEED" -max_len=1536 -len_control=0 \
    -artifact_prefix="$A/" -jobs="$JOBS" -workers="$JOBS" -print_final_stats=1 ) >"$A/driver.log" 2>&1
code=$?
end=$(date +%s)
execs=$(cat "$A"/fuzz-*.log 2>/dev/null | grep -a 'stat::number_of_executed_units' | awk '{s+=$2} END {print s+0}')
files=$(ls "$C" | wc -l)
crash=$(ls "$A" | grep -E '^(crash|timeout|oom)-' | head -1)
"$ROOT/harness/target/release/xvf" fuzz-note "$P" "$PLAN" "$execs" "$files" "$((end-start))" >/dev/null 2>&1
if [ -n "$crash" ]; then
  case "$crash" in
    crash-*)
      out="$ROOT/evidence/replays/$P-fuzz-$(echo "$crash" | cut -c7-22).case"
      mkdir -p "$ROOT/evidence/replays"
      { echo "xvf-case 1"; echo "property=$P"; echo "plan=$PLAN"; echo "hex=$(xxd -p "$A/$crash" | tr -d '\n')"; echo "# found by libFuzzer"; } > "$out"
      "$ROOT/harness/target/release/xvf" replay "$P" "$out"
      rc=$?
      if [ $rc -eq 1 ]; then exit 1; fi
      echo "INCONCLUSIVE: libFuzzer artifact $crash does not reproduce through replay"; exit 2 ;;
    *) echo "INCONCLUSIVE: libFuzzer reported $crash (time/memory limit), not a violation"; exit 2 ;;
  esac
fi
if [ $code -ne 0 ]; then echo "INCONCLUSIVE: libFuzzer exited with $code (see $A/driver.log)"; exit 2; fi
echo "libfuzzer property=$P plan=$PLAN execs=$execs corpus_files=$files wall=$((end-start))s"
exit 0
