#!/usr/bin/env python3
"""Regenerates the two generated tables of DESIGN.md (between <!-- BEGIN x --> / <!-- END x -->
markers): the table of repairs (from known_findings.txt + git log of /repo) and the matrix of
seeded changes (from seeded/*/meta.json)."""
import json, os, re, subprocess, sys
ROOT = os.path.dirname(os.path.dirname(os.path.abspath(__file__)))

def fixes():
    rows = []
    for l in open(os.path.join(ROOT, 'known_findings.txt')):
        m = re.match(r'fixed: property=(C\d\d) ([0-9a-f]{7,}) (.*)', l.strip())
        if not m:
            continue
        prop, commit, rest = m.groups()
        w = re.search(r'witness (corpus/[^\s;)]+)', rest)
        try:
            subj = subprocess.check_output(['git', '-C', '/repo', 'log', '-1', '--format=%s', commit], text=True).strip()
        except Exception:
            subj = rest
        subj = re.sub(r'^fix:\s*', '', subj)
        rows.append('| `%s` | %s | %s | %s |' % (commit[:7], prop, subj, ('`%s`' % w.group(1)) if w else '—'))
    return ['| commit | found by | repair | witness |', '|---|---|---|---|'] + rows, len(rows)

def seeded():
    rows = []
    d = os.path.join(ROOT, 'seeded')
    for name in sorted(os.listdir(d)):
        mp = os.path.join(d, name, 'meta.json')
        if not os.path.exists(mp):
            continue
        m = json.load(open(mp))
        s = ' '.join(m.get('summary', '').split()).replace('|', '/')
        if len(s) > 170:
            s = s[:170] + '...'
        det = '; '.join(m.get('detected_by', [])) or '**none**'
        nd = '; '.join(m.get('not_detected_by', [])) or '—'
        rows.append('| %s | %s | %s | %s |' % (name, s, det.replace('|', '/'), nd.replace('|', '/')))
    return ['| seeded change | what was changed (abridged from meta.json) | detected by (quick tier) | not detected by |', '|---|---|---|---|'] + rows, len(rows)

def splice(text, tag, lines):
    b, e = '<!-- BEGIN %s -->' % tag, '<!-- END %s -->' % tag
    i, j = text.index(b), text.index(e)
    return text[:i + len(b)] + '\n' + '\n'.join(lines) + '\n' + text[j:]

p = os.path.join(ROOT, 'DESIGN.md')
t = open(p).read()
f, nf = fixes()
s, ns = seeded()
t = splice(t, 'FIXTABLE', f)
t = splice(t, 'SEEDEDTABLE', s)
open(p, 'w').write(t)
print('fixes=%d seeded=%d' % (nf, ns))
