//! xvf-deep <depth> <preserve_at> <default_at>: body of the child process of C18's deep-chain plan.
//! Exit 0 = as expected, 3 = wrong result (message on stdout); anything else = the process died.

fn main() {
    let args: Vec<String> = std::env::args().collect();
    let n = |i: usize| args.get(i).and_then(|a| a.parse::<usize>().ok()).unwrap_or(0);
    std::process::exit(deep_child(n(1), n(2), n(3)));
}

/// body of the child process: 0 = as expected, 3 = wrong result (message on stdout)
fn deep_child(depth: usize, preserve_at: usize, default_at: usize) -> i32 {
    let text_levels = [depth / 3 + 1, 2 * depth / 3 + 1, depth];
    // the call runs on a thread with the default stack of a Rust thread (2 MiB)
    let handle = std::thread::spawn(move || {
        let mut xot = xot::Xot::new();
        let name = xot.add_name("e");
        let space = xot.xml_space_name();
        // built from the innermost element outwards: appending to an element that has no ancestors yet
        // costs the same at every level (top-down, Xot::append and the parser walk the ancestors)
        let mut texts: Vec<(usize, xot::Node)> = vec![];
        let mut inner: Option<xot::Node> = None;
        for level in (1..=depth).rev() {
            let e = xot.new_element(name);
            if level == preserve_at {
                xot.set_attribute(e, space, "preserve");
            } else if level == default_at {
                xot.set_attribute(e, space, "default");
            }
            if text_levels.contains(&level) && !texts.iter().any(|(l, _)| *l == level) {
                let t = xot.new_text(" \n");
                if xot.append(e, t).is_err() {
                    println!("harness: append of a text node refused");
                    return 3;
                }
                texts.push((level, t));
            }
            if let Some(child) = inner {
                if xot.append(e, child).is_err() {
                    println!("harness: append refused");
                    return 3;
                }
            }
            inner = Some(e);
        }
        let doc = xot.new_document();
        if let Some(top) = inner {
            if xot.append(doc, top).is_err() {
                println!("harness: append to the document refused");
                return 3;
            }
        }
        xot.remove_insignificant_whitespace(doc);
        for (level, t) in &texts {
            // the innermost xml:space at or above the text's parent decides
            let nearest = [(preserve_at, true), (default_at, false)].iter().filter(|(at, _)| *at != 0 && *at <= *level).max_by_key(|(at, _)| *at).map(|(_, p)| *p).unwrap_or(false);
            let kept = !xot.is_removed(*t) && xot.parent(*t).is_some();
            if kept != nearest {
                println!(
                    "the whitespace-only text at level {} was {} although the innermost xml:space at or above it says {}",
                    level,
                    if kept { "kept" } else { "removed" },
                    if nearest { "preserve" } else { "default / nothing" }
                );
                return 3;
            }
        }
        std::mem::forget(xot);
        0
    });
    match handle.join() {
        Ok(c) => c,
        Err(_) => {
            println!("the call panicked");
            3
        }
    }
}
