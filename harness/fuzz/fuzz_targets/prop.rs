#![no_main]
//! One libFuzzer target for every property: XVF_PROP selects the property, XVF_PLAN the plan
//! (size knobs). The bytes libFuzzer mutates are exactly the case bytes of the proptest driver,
//! decoded by the same decoder and judged by the same oracle. A violation that is not a listed
//! known finding aborts, so libFuzzer saves the input as an artifact.
use libfuzzer_sys::fuzz_target;
use std::sync::OnceLock;
use xvf::engine::findings::Findings;
use xvf::engine::runner::{self, Input};
use xvf::engine::{Plan, Property, Verdict};

struct Setup {
    prop: &'static dyn Property,
    plan: Plan,
    known: Vec<String>,
}
static SETUP: OnceLock<Setup> = OnceLock::new();

fn setup() -> &'static Setup {
    SETUP.get_or_init(|| {
        // replace libfuzzer-sys's aborting panic hook: the oracles catch panics themselves
        runner::install_panic_hook();
        let id = std::env::var("XVF_PROP").expect("XVF_PROP");
        let plan_name = std::env::var("XVF_PLAN").expect("XVF_PLAN");
        let prop = xvf::props::by_id(&id).expect("unknown property");
        let plan = runner::find_plan(prop, &plan_name).expect("unknown plan");
        let known = Findings::load().map(|f| f.sigs_for(&id)).unwrap_or_default();
        Setup { prop, plan, known }
    })
}

fuzz_target!(|data: &[u8]| {
    let s = setup();
    let out = runner::run_case(s.prop, Input::Bytes(data), s.plan.knobs, &s.known, false, false);
    let fail = match &out.verdict {
        Verdict::Pass => None,
        Verdict::Known { sig, detail } => {
            if s.known.iter().any(|k| k == sig) {
                None
            } else {
                Some(format!("[{}] {}", sig, detail))
            }
        }
        Verdict::Fail(m) => Some(m.clone()),
    };
    if let Some(m) = fail {
        eprintln!("XVF-FUZZ-VIOLATION property={} plan={} : {}", s.prop.id(), s.plan.name, m);
        std::process::abort();
    }
});
