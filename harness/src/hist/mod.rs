//! Call histories over a forest: operation alphabet, generation from a `Src`,
//! execution against xot. Shared by C04, C05, C06, C12.

use xot::{Node, Xot};

use crate::bridge::name_id;
use crate::engine::Src;
use crate::gen::{self, Alpha};
use crate::model::{ANode, AElem, MVal, QName};

pub type N = usize;

#[derive(Clone, Debug, PartialEq, Eq, Hash)]
pub enum Op {
    Append(N, N),
    Prepend(N, N),
    InsertAfter(N, N),
    InsertBefore(N, N),
    Detach(N),
    Remove(N),
    Replace(N, N),
    Wrap(N, QName),
    Unwrap(N),
    CloneNode(N),
    CloneWithPrefixes(N),
    AppendAttrNode(N, N),
    AppendNsNode(N, N),
    AnyAppend(N, N),
    AttrInsert(N, QName, String),
    AttrRemove(N, QName),
    AttrClear(N),
    AttrGetMut(N, QName, String),
    SetAttribute(N, QName, String),
    RemoveAttribute(N, QName),
    AttrEntryOrInsert(N, QName, String),
    NsInsert(N, String, String),
    NsRemove(N, String),
    NsClear(N),
    SetNamespace(N, String, String),
    RemoveNamespace(N, String),
    SetElementName(N, QName),
    TextSet(N, String),
    CommentSet(N, String),
    PiSetData(N, Option<String>),
    AttrNodeSet(N, String),
    NsNodeSet(N, String),
    TextContentSet(N, String),
    AppendText(N, String),
    AppendElement(N, QName),
    AppendComment(N, String),
    AppendPi(N, String, Option<String>),
    NewDocWithElement(N),
    RemoveWs(N),
    CreateMissingPrefixes(N),
    Dedup(N),
    New(MVal),
    Parse(usize),
    ParseFragment(usize),
    SetConsolidation(bool),
    /// `append_namespace(parent, &CreateNamespace)` — the wrapper over new_namespace_node + append_namespace_node
    AppendNamespace(N, String, String),
    /// `element_mut(n).set_name(..)` — the value-level twin of set_element_name (None on a non-element)
    ElementMutSetName(N, QName),
    /// `processing_instruction_mut(n).set_target(..)`
    PiSetTarget(N, String),
}

impl Op {
    pub fn show(&self) -> String {
        use Op::*;
        match self {
            Append(a, b) => format!("append(n{},n{})", a, b),
            Prepend(a, b) => format!("prepend(n{},n{})", a, b),
            InsertAfter(a, b) => format!("insert_after(n{},n{})", a, b),
            InsertBefore(a, b) => format!("insert_before(n{},n{})", a, b),
            Detach(a) => format!("detach(n{})", a),
            Remove(a) => format!("remove(n{})", a),
            Replace(a, b) => format!("replace(n{},n{})", a, b),
            Wrap(a, q) => format!("element_wrap(n{},{})", a, q.show()),
            Unwrap(a) => format!("element_unwrap(n{})", a),
            CloneNode(a) => format!("clone_node(n{})", a),
            CloneWithPrefixes(a) => format!("clone_with_prefixes(n{})", a),
            AppendAttrNode(a, b) => format!("append_attribute_node(n{},n{})", a, b),
            AppendNsNode(a, b) => format!("append_namespace_node(n{},n{})", a, b),
            AnyAppend(a, b) => format!("any_append(n{},n{})", a, b),
            AttrInsert(a, q, v) => format!("attributes_mut(n{}).insert({},{:?})", a, q.show(), v),
            AttrRemove(a, q) => format!("attributes_mut(n{}).remove({})", a, q.show()),
            AttrClear(a) => format!("attributes_mut(n{}).clear()", a),
            AttrGetMut(a, q, v) => format!("*attributes_mut(n{}).get_mut({})={:?}", a, q.show(), v),
            SetAttribute(a, q, v) => format!("set_attribute(n{},{},{:?})", a, q.show(), v),
            RemoveAttribute(a, q) => format!("remove_attribute(n{},{})", a, q.show()),
            AttrEntryOrInsert(a, q, v) => {
                format!("attributes_mut(n{}).entry({}).or_insert({:?})", a, q.show(), v)
            }
            NsInsert(a, p, u) => format!("namespaces_mut(n{}).insert({:?},{:?})", a, p, u),
            NsRemove(a, p) => format!("namespaces_mut(n{}).remove({:?})", a, p),
            NsClear(a) => format!("namespaces_mut(n{}).clear()", a),
            SetNamespace(a, p, u) => format!("set_namespace(n{},{:?},{:?})", a, p, u),
            AppendNamespace(a, p, u) => format!("append_namespace(n{},{:?},{:?})", a, p, u),
            ElementMutSetName(a, q) => format!("element_mut(n{}).set_name({})", a, q.show()),
            PiSetTarget(a, t) => format!("pi_mut(n{}).set_target({:?})", a, t),
            RemoveNamespace(a, p) => format!("remove_namespace(n{},{:?})", a, p),
            SetElementName(a, q) => format!("set_element_name(n{},{})", a, q.show()),
            TextSet(a, s) => format!("text_mut(n{}).set({:?})", a, s),
            CommentSet(a, s) => format!("comment_mut(n{}).set({:?})", a, s),
            PiSetData(a, d) => format!("pi_mut(n{}).set_data({:?})", a, d),
            AttrNodeSet(a, s) => format!("attribute_node_mut(n{}).set_value({:?})", a, s),
            NsNodeSet(a, s) => format!("namespace_node_mut(n{}).set_namespace({:?})", a, s),
            TextContentSet(a, s) => format!("text_content_mut(n{}).set({:?})", a, s),
            AppendText(a, s) => format!("append_text(n{},{:?})", a, s),
            AppendElement(a, q) => format!("append_element(n{},{})", a, q.show()),
            AppendComment(a, s) => format!("append_comment(n{},{:?})", a, s),
            AppendPi(a, t, d) => format!("append_processing_instruction(n{},{},{:?})", a, t, d),
            NewDocWithElement(a) => format!("new_document_with_element(n{})", a),
            RemoveWs(a) => format!("remove_insignificant_whitespace(n{})", a),
            CreateMissingPrefixes(a) => format!("create_missing_prefixes(n{})", a),
            Dedup(a) => format!("deduplicate_namespaces(n{})", a),
            New(v) => format!("new({})", v.show()),
            Parse(i) => format!("parse(#{})", i),
            ParseFragment(i) => format!("parse_fragment(#{})", i),
            SetConsolidation(b) => format!("set_text_consolidation({})", b),
        }
    }

    pub fn name(&self) -> &'static str {
        use Op::*;
        match self {
            Append(..) => "append",
            Prepend(..) => "prepend",
            InsertAfter(..) => "insert_after",
            InsertBefore(..) => "insert_before",
            Detach(..) => "detach",
            Remove(..) => "remove",
            Replace(..) => "replace",
            Wrap(..) => "element_wrap",
            Unwrap(..) => "element_unwrap",
            CloneNode(..) => "clone_node",
            CloneWithPrefixes(..) => "clone_with_prefixes",
            AppendAttrNode(..) => "append_attribute_node",
            AppendNsNode(..) => "append_namespace_node",
            AnyAppend(..) => "any_append",
            AttrInsert(..) => "attr_insert",
            AttrRemove(..) => "attr_remove",
            AttrClear(..) => "attr_clear",
            AttrGetMut(..) => "attr_get_mut",
            SetAttribute(..) => "set_attribute",
            RemoveAttribute(..) => "remove_attribute",
            AttrEntryOrInsert(..) => "attr_entry",
            NsInsert(..) => "ns_insert",
            NsRemove(..) => "ns_remove",
            NsClear(..) => "ns_clear",
            SetNamespace(..) => "set_namespace",
            AppendNamespace(..) => "append_namespace",
            ElementMutSetName(..) => "element_mut_set_name",
            PiSetTarget(..) => "pi_set_target",
            RemoveNamespace(..) => "remove_namespace",
            SetElementName(..) => "set_element_name",
            TextSet(..) => "text_set",
            CommentSet(..) => "comment_set",
            PiSetData(..) => "pi_set_data",
            AttrNodeSet(..) => "attr_node_set",
            NsNodeSet(..) => "ns_node_set",
            TextContentSet(..) => "text_content_mut",
            AppendText(..) => "append_text",
            AppendElement(..) => "append_element",
            AppendComment(..) => "append_comment",
            AppendPi(..) => "append_pi",
            NewDocWithElement(..) => "new_document_with_element",
            RemoveWs(..) => "remove_insignificant_whitespace",
            CreateMissingPrefixes(..) => "create_missing_prefixes",
            Dedup(..) => "deduplicate_namespaces",
            New(..) => "new",
            Parse(..) => "parse",
            ParseFragment(..) => "parse_fragment",
            SetConsolidation(..) => "set_text_consolidation",
        }
    }
}

/// texts fed to parse / parse_fragment inside histories, with the tree they denote
pub fn parse_pool() -> Vec<(&'static str, ANode)> {
    let el = |name: &str, attrs: Vec<(&str, &str)>, ch: Vec<ANode>| {
        ANode::Element(AElem {
            name: QName::new("", name),
            decls: vec![],
            attrs: attrs
                .into_iter()
                .map(|(k, v)| (QName::new("", k), v.to_string()))
                .collect(),
            children: ch,
        })
    };
    vec![
        ("<a/>", ANode::Document(vec![el("a", vec![], vec![])])),
        (
            "<a x=\"1\">t<b/>u</a>",
            ANode::Document(vec![el(
                "a",
                vec![("x", "1")],
                vec![
                    ANode::Text("t".into()),
                    el("b", vec![], vec![]),
                    ANode::Text("u".into()),
                ],
            )]),
        ),
        (
            "<!--c--><r xml:id=\"i1\"><s xml:id=\"i2\"/></r>",
            ANode::Document(vec![
                ANode::Comment("c".into()),
                ANode::Element(AElem {
                    name: QName::new("", "r"),
                    decls: vec![],
                    attrs: vec![(QName::new(crate::model::XML_NS, "id"), "i1".into())],
                    children: vec![ANode::Element(AElem {
                        name: QName::new("", "s"),
                        decls: vec![],
                        attrs: vec![(QName::new(crate::model::XML_NS, "id"), "i2".into())],
                        children: vec![],
                    })],
                }),
            ]),
        ),
        (
            "<p:a xmlns:p=\"urn:a\" p:k=\"v\"> <p:b/> </p:a>",
            ANode::Document(vec![ANode::Element(AElem {
                name: QName::new("urn:a", "a"),
                decls: vec![("p".into(), "urn:a".into())],
                attrs: vec![(QName::new("urn:a", "k"), "v".into())],
                children: vec![
                    ANode::Text(" ".into()),
                    ANode::Element(AElem {
                        name: QName::new("urn:a", "b"),
                        ..Default::default()
                    }),
                    ANode::Text(" ".into()),
                ],
            })]),
        ),
    ]
}

pub fn fragment_pool() -> Vec<(&'static str, ANode)> {
    let el = |name: &str| {
        ANode::Element(AElem {
            name: QName::new("", name),
            ..Default::default()
        })
    };
    vec![
        ("", ANode::Document(vec![])),
        ("x", ANode::Document(vec![ANode::Text("x".into())])),
        (
            "<a/>y<b/>",
            ANode::Document(vec![el("a"), ANode::Text("y".into()), el("b")]),
        ),
        (
            "<?pi d?><!--c-->",
            ANode::Document(vec![
                ANode::PI("pi".into(), Some("d".into())),
                ANode::Comment("c".into()),
            ]),
        ),
    ]
}

pub struct GenCfg {
    pub small: bool,
}

fn g_qname(src: &mut Src, small: bool, attr: bool) -> QName {
    if small {
        QName::new("", if src.bool() { "b" } else { "a" })
    } else {
        let locals = ["a", "b", "c", "space", "id"];
        let nss = ["", "urn:a", "urn:b", crate::model::XML_NS];
        let l = locals[src.weighted(&[5, 4, 3, 1, 1])];
        let n = nss[src.weighted(&[if attr { 8 } else { 5 }, 2, 2, 1])];
        QName::new(n, l)
    }
}

fn g_text(src: &mut Src, small: bool) -> String {
    if small {
        ["x", " ", ""][src.weighted(&[3, 1, 1])].to_string()
    } else {
        gen::gen_text(src, Alpha::Space, 3)
    }
}

fn g_prefix(src: &mut Src, small: bool) -> String {
    if small {
        ["", "p"][src.choice(2)].to_string()
    } else {
        ["", "p", "q", "n0", "xml"][src.weighted(&[4, 4, 3, 2, 1])].to_string()
    }
}

fn g_uri(src: &mut Src, small: bool) -> String {
    if small {
        ["u", ""][src.choice(2)].to_string()
    } else {
        ["urn:a", "urn:b", "", crate::model::XML_NS][src.weighted(&[5, 4, 2, 1])].to_string()
    }
}

/// which op kinds a history may draw (index into the weight table of `gen_op`)
#[derive(Clone, Copy)]
pub struct OpMix {
    pub structural: u32,
    pub maps: u32,
    pub values: u32,
    pub convenience: u32,
    pub tree_wide: u32,
    pub creation: u32,
    pub parse: u32,
    pub toggle: u32,
}

impl OpMix {
    pub fn all() -> Self {
        OpMix {
            structural: 10,
            maps: 3,
            values: 2,
            convenience: 2,
            tree_wide: 1,
            creation: 3,
            parse: 1,
            toggle: 1,
        }
    }
}

/// Draw one operation. `pick` chooses an operand among the live nodes.
pub fn gen_op(src: &mut Src, mix: &OpMix, small: bool, pick: &mut dyn FnMut(&mut Src) -> N) -> Op {
    let mut n = |src: &mut Src| -> N { pick(src) };
    let group = src.weighted(&[
        mix.structural,
        mix.maps,
        mix.values,
        mix.convenience,
        mix.tree_wide,
        mix.creation,
        mix.parse,
        mix.toggle,
    ]);
    match group {
        0 => match src.weighted(&[4, 4, 4, 4, 3, 3, 4, 3, 3, 2, 1, 2, 2, 2, 1]) {
            0 => Op::Append(n(src), n(src)),
            1 => Op::Prepend(n(src), n(src)),
            2 => Op::InsertAfter(n(src), n(src)),
            3 => Op::InsertBefore(n(src), n(src)),
            4 => Op::Detach(n(src)),
            5 => Op::Remove(n(src)),
            6 => Op::Replace(n(src), n(src)),
            7 => Op::Wrap(n(src), g_qname(src, small, false)),
            8 => Op::Unwrap(n(src)),
            9 => Op::CloneNode(n(src)),
            10 => Op::CloneWithPrefixes(n(src)),
            11 => Op::AppendAttrNode(n(src), n(src)),
            12 => Op::AppendNsNode(n(src), n(src)),
            13 => Op::AnyAppend(n(src), n(src)),
            _ => Op::NewDocWithElement(n(src)),
        },
        1 => match src.choice(12) {
            0 => Op::AttrInsert(n(src), g_qname(src, small, true), g_text(src, small)),
            1 => Op::AttrRemove(n(src), g_qname(src, small, true)),
            2 => Op::AttrClear(n(src)),
            3 => Op::AttrGetMut(n(src), g_qname(src, small, true), g_text(src, small)),
            4 => Op::SetAttribute(n(src), g_qname(src, small, true), g_text(src, small)),
            5 => Op::RemoveAttribute(n(src), g_qname(src, small, true)),
            6 => Op::AttrEntryOrInsert(n(src), g_qname(src, small, true), g_text(src, small)),
            7 => Op::NsInsert(n(src), g_prefix(src, small), g_uri(src, small)),
            8 => Op::NsRemove(n(src), g_prefix(src, small)),
            9 => Op::NsClear(n(src)),
            10 => {
                let (a, p, u) = (n(src), g_prefix(src, small), g_uri(src, small));
                if src.ratio(1, 4) {
                    Op::AppendNamespace(a, p, u)
                } else {
                    Op::SetNamespace(a, p, u)
                }
            }
            _ => Op::RemoveNamespace(n(src), g_prefix(src, small)),
        },
        2 => match src.choice(7) {
            0 => {
                let (a, q) = (n(src), g_qname(src, small, false));
                if src.ratio(1, 4) {
                    Op::ElementMutSetName(a, q)
                } else {
                    Op::SetElementName(a, q)
                }
            }
            1 => Op::TextSet(n(src), g_text(src, small)),
            2 => Op::CommentSet(n(src), if src.ratio(1, 4) { "a--b".into() } else { g_text(src, small) }),
            3 => {
                let a = n(src);
                let d = match src.choice(3) {
                    0 => None,
                    1 => Some(String::new()),
                    _ => Some(g_text(src, small)),
                };
                if src.ratio(1, 4) {
                    Op::PiSetTarget(a, ["pi", "t2", "xml-x"][src.choice(3)].to_string())
                } else {
                    Op::PiSetData(a, d)
                }
            }
            4 => Op::AttrNodeSet(n(src), g_text(src, small)),
            5 => Op::NsNodeSet(n(src), g_uri(src, small)),
            _ => Op::TextContentSet(n(src), g_text(src, small)),
        },
        3 => match src.choice(4) {
            0 => Op::AppendText(n(src), g_text(src, small)),
            1 => Op::AppendElement(n(src), g_qname(src, small, false)),
            2 => Op::AppendComment(n(src), g_text(src, small)),
            _ => Op::AppendPi(
                n(src),
                "pi".into(),
                if src.bool() { Some("d".into()) } else { None },
            ),
        },
        4 => match src.choice(3) {
            0 => Op::RemoveWs(n(src)),
            1 => Op::CreateMissingPrefixes(n(src)),
            _ => Op::Dedup(n(src)),
        },
        5 => Op::New(match src.weighted(&[3, 4, 1, 1, 3, 3, 1]) {
            0 => MVal::Element(g_qname(src, small, false)),
            1 => MVal::Text(g_text(src, small)),
            2 => MVal::Comment(g_text(src, small)),
            3 => MVal::PI(QName::new("", "pi"), None),
            4 => MVal::Attribute(g_qname(src, small, true), g_text(src, small)),
            5 => MVal::Namespace(g_prefix(src, small), g_uri(src, small)),
            _ => MVal::Document,
        }),
        6 => {
            if src.bool() {
                Op::Parse(src.choice(parse_pool().len()))
            } else {
                Op::ParseFragment(src.choice(fragment_pool().len()))
            }
        }
        _ => Op::SetConsolidation(src.bool()),
    }
}

#[derive(Debug, Clone, PartialEq)]
pub enum Outcome {
    /// Ok, no interesting return value
    Ok,
    /// Ok and the call returned this node
    Node(Node),
    /// Ok and the call returned this optional string (old value etc.)
    Val(Option<String>),
    /// the call returned Err
    Err(String),
}

/// The three documented panics of the element-only accessors.
pub const DOCUMENTED_PANICS: &[&str] = &[
    "Node is not an element, so cannot set attributes",
    "Node is not an element, so cannot set namespaces",
    "Node is not an element, so cannot set element name",
];

/// Execute one op against xot. `h` maps operand numbers to handles.
/// Panics propagate to the caller (who wraps this in `guarded`).
pub fn exec(xot: &mut Xot, op: &Op, h: &dyn Fn(N) -> Node) -> Outcome {
    use Op::*;
    fn r(x: Result<(), xot::Error>) -> Outcome {
        match x {
            Ok(()) => Outcome::Ok,
            Err(e) => Outcome::Err(e.to_string()),
        }
    }
    fn rn(x: Result<Node, xot::Error>) -> Outcome {
        match x {
            Ok(n) => Outcome::Node(n),
            Err(e) => Outcome::Err(e.to_string()),
        }
    }
    match op {
        Append(p, c) => r(xot.append(h(*p), h(*c))),
        Prepend(p, c) => r(xot.prepend(h(*p), h(*c))),
        InsertAfter(a, b) => r(xot.insert_after(h(*a), h(*b))),
        InsertBefore(a, b) => r(xot.insert_before(h(*a), h(*b))),
        Detach(a) => r(xot.detach(h(*a))),
        Remove(a) => r(xot.remove(h(*a))),
        Replace(a, b) => r(xot.replace(h(*a), h(*b))),
        Wrap(a, q) => {
            let id = name_id(xot, q);
            rn(xot.element_wrap(h(*a), id))
        }
        Unwrap(a) => r(xot.element_unwrap(h(*a))),
        CloneNode(a) => Outcome::Node(xot.clone_node(h(*a))),
        CloneWithPrefixes(a) => Outcome::Node(xot.clone_with_prefixes(h(*a))),
        AppendAttrNode(a, b) => rn(xot.append_attribute_node(h(*a), h(*b))),
        AppendNsNode(a, b) => rn(xot.append_namespace_node(h(*a), h(*b))),
        AnyAppend(a, b) => rn(xot.any_append(h(*a), h(*b))),
        AttrInsert(a, q, v) => {
            let id = name_id(xot, q);
            Outcome::Val(xot.attributes_mut(h(*a)).insert(id, v.clone()))
        }
        AttrRemove(a, q) => {
            let id = name_id(xot, q);
            Outcome::Val(xot.attributes_mut(h(*a)).remove(id))
        }
        AttrClear(a) => {
            xot.attributes_mut(h(*a)).clear();
            Outcome::Ok
        }
        AttrGetMut(a, q, v) => {
            let id = name_id(xot, q);
            let mut m = xot.attributes_mut(h(*a));
            match m.get_mut(id) {
                Some(slot) => {
                    let old = std::mem::replace(slot, v.clone());
                    Outcome::Val(Some(old))
                }
                None => Outcome::Val(None),
            }
        }
        SetAttribute(a, q, v) => {
            let id = name_id(xot, q);
            xot.set_attribute(h(*a), id, v.clone());
            Outcome::Ok
        }
        RemoveAttribute(a, q) => {
            let id = name_id(xot, q);
            xot.remove_attribute(h(*a), id);
            Outcome::Ok
        }
        AttrEntryOrInsert(a, q, v) => {
            let id = name_id(xot, q);
            let mut m = xot.attributes_mut(h(*a));
            let got = m.entry(id).or_insert(v.clone()).clone();
            Outcome::Val(Some(got))
        }
        NsInsert(a, p, u) => {
            let p = xot.add_prefix(p);
            let u = xot.add_namespace(u);
            let old = xot.namespaces_mut(h(*a)).insert(p, u);
            Outcome::Val(old.map(|o| xot.namespace_str(o).to_string()))
        }
        NsRemove(a, p) => {
            let p = xot.add_prefix(p);
            let old = xot.namespaces_mut(h(*a)).remove(p);
            Outcome::Val(old.map(|o| xot.namespace_str(o).to_string()))
        }
        NsClear(a) => {
            xot.namespaces_mut(h(*a)).clear();
            Outcome::Ok
        }
        SetNamespace(a, p, u) => {
            let p = xot.add_prefix(p);
            let u = xot.add_namespace(u);
            xot.set_namespace(h(*a), p, u);
            Outcome::Ok
        }
        RemoveNamespace(a, p) => {
            let p = xot.add_prefix(p);
            xot.remove_namespace(h(*a), p);
            Outcome::Ok
        }
        SetElementName(a, q) => {
            let id = name_id(xot, q);
            xot.set_element_name(h(*a), id);
            Outcome::Ok
        }
        AppendNamespace(a, p, u) => {
            let ns = xot::xmlname::CreateNamespace::new(xot, p, u);
            match xot.append_namespace(h(*a), &ns) {
                Ok(n) => Outcome::Node(n),
                Err(e) => Outcome::Err(e.to_string()),
            }
        }
        ElementMutSetName(a, q) => {
            let id = name_id(xot, q);
            match xot.element_mut(h(*a)) {
                Some(e) => {
                    e.set_name(id);
                    Outcome::Val(Some(String::new()))
                }
                None => Outcome::Val(None),
            }
        }
        PiSetTarget(a, t) => {
            let id = xot.add_name(t);
            match xot.processing_instruction_mut(h(*a)) {
                Some(p) => match p.set_target::<String>(id) {
                    Ok(()) => Outcome::Val(Some(String::new())),
                    Err(e) => Outcome::Err(e.to_string()),
                },
                None => Outcome::Val(None),
            }
        }
        TextSet(a, s) => match xot.text_mut(h(*a)) {
            Some(t) => {
                t.set(s.clone());
                Outcome::Val(Some(String::new()))
            }
            None => Outcome::Val(None),
        },
        CommentSet(a, s) => match xot.comment_mut(h(*a)) {
            Some(c) => match c.set(s.clone()) {
                Ok(()) => Outcome::Val(Some(String::new())),
                Err(e) => Outcome::Err(e.to_string()),
            },
            None => Outcome::Val(None),
        },
        PiSetData(a, d) => match xot.processing_instruction_mut(h(*a)) {
            Some(p) => {
                p.set_data(d.clone());
                Outcome::Val(Some(String::new()))
            }
            None => Outcome::Val(None),
        },
        AttrNodeSet(a, s) => match xot.attribute_node_mut(h(*a)) {
            Some(x) => {
                x.set_value(s.clone());
                Outcome::Val(Some(String::new()))
            }
            None => Outcome::Val(None),
        },
        NsNodeSet(a, s) => {
            let u = xot.add_namespace(s);
            match xot.namespace_node_mut(h(*a)) {
                Some(x) => {
                    x.set_namespace(u);
                    Outcome::Val(Some(String::new()))
                }
                None => Outcome::Val(None),
            }
        }
        TextContentSet(a, s) => match xot.text_content_mut(h(*a)) {
            Some(t) => {
                let old = t.get().to_string();
                t.set(s.clone());
                Outcome::Val(Some(old))
            }
            None => Outcome::Val(None),
        },
        AppendText(a, s) => r(xot.append_text(h(*a), s)),
        AppendElement(a, q) => {
            let id = name_id(xot, q);
            r(xot.append_element(h(*a), id))
        }
        AppendComment(a, s) => r(xot.append_comment(h(*a), s)),
        AppendPi(a, t, d) => {
            let id = xot.add_name(t);
            r(xot.append_processing_instruction(h(*a), id, d.as_deref()))
        }
        NewDocWithElement(a) => rn(xot.new_document_with_element(h(*a))),
        RemoveWs(a) => {
            xot.remove_insignificant_whitespace(h(*a));
            Outcome::Ok
        }
        CreateMissingPrefixes(a) => r(xot.create_missing_prefixes(h(*a))),
        Dedup(a) => {
            xot.deduplicate_namespaces(h(*a));
            Outcome::Ok
        }
        New(v) => Outcome::Node(crate::bridge::new_node(xot, v)),
        Parse(i) => match xot.parse(parse_pool()[*i].0) {
            Ok(n) => Outcome::Node(n),
            Err(e) => Outcome::Err(e.to_string()),
        },
        ParseFragment(i) => match xot.parse_fragment(fragment_pool()[*i].0) {
            Ok(n) => Outcome::Node(n),
            Err(e) => Outcome::Err(e.to_string()),
        },
        SetConsolidation(b) => {
            xot.set_text_consolidation(*b);
            Outcome::Ok
        }
    }
}

/// Is the op one of the element-only accessors whose panic on a non-element is documented?
pub fn may_panic_documented(op: &Op) -> bool {
    use Op::*;
    matches!(
        op,
        AttrInsert(..)
            | AttrRemove(..)
            | AttrClear(..)
            | AttrGetMut(..)
            | SetAttribute(..)
            | RemoveAttribute(..)
            | AttrEntryOrInsert(..)
            | NsInsert(..)
            | NsRemove(..)
            | NsClear(..)
            | SetNamespace(..)
            | RemoveNamespace(..)
            | SetElementName(..)
    )
}

/// Start forests: a few trees with every node kind, drawn from the source.
pub fn gen_start_forest(src: &mut Src, small: bool, max_nodes: usize) -> Vec<ANode> {
    let mut out = vec![];
    if small {
        out.push(gen_small_tree(src, max_nodes));
        // one free-standing text node so that cross-tree moves and text arrivals are reachable
        out.push(ANode::Text("y".into()));
        return out;
    }
    let ntrees = 1 + src.weighted(&[2, 4, 3, 1]);
    let mut o = gen::TreeOpts::xml(max_nodes / ntrees + 2);
    o.alpha = Alpha::Space;
    o.attr_alpha = Alpha::Space;
    o.scoping = gen::Scoping::Free;
    o.max_depth = 5;
    for _ in 0..ntrees {
        match src.weighted(&[4, 3, 3, 1, 1, 1]) {
            0 => out.push(gen::gen_document(src, &o)),
            1 => out.push(gen::gen_fragment(src, &o)),
            2 => out.push(gen::gen_element_tree(src, &o)),
            3 => out.push(ANode::Text(g_text(src, false))),
            4 => out.push(ANode::Attribute(g_qname(src, false, true), g_text(src, false))),
            _ => out.push(ANode::Namespace(g_prefix(src, false), g_uri(src, false))),
        }
    }
    out
}

/// Small-scope trees: every shape with at most `max_nodes` ordinary nodes over
/// {element a/b, text "x", comment}, the root optionally carrying one attribute
/// and one namespace node. Designed for exhaustive path enumeration.
pub fn gen_small_tree(src: &mut Src, max_nodes: usize) -> ANode {
    fn kids(src: &mut Src, budget: &mut usize, depth: usize) -> Vec<ANode> {
        let mut out = vec![];
        loop {
            if *budget == 0 {
                break;
            }
            // 0 = stop, 1 = element, 2 = text, 3 = comment
            let k = src.choice(4);
            if k == 0 {
                break;
            }
            *budget -= 1;
            match k {
                1 => {
                    let ch = if depth < 3 { kids(src, budget, depth + 1) } else { vec![] };
                    out.push(ANode::Element(AElem {
                        name: QName::new("", "b"),
                        children: ch,
                        ..Default::default()
                    }));
                }
                2 => {
                    // no adjacent text in a start tree
                    if matches!(out.last(), Some(ANode::Text(_))) {
                        out.push(ANode::Comment("c".into()));
                    } else {
                        out.push(ANode::Text("x".into()));
                    }
                }
                _ => out.push(ANode::Comment("c".into())),
            }
        }
        out
    }
    let mut budget = max_nodes.saturating_sub(1);
    let decls = if src.bool() {
        vec![("p".to_string(), "u".to_string())]
    } else {
        vec![]
    };
    let attrs = if src.bool() {
        vec![(QName::new("", "a"), "x".to_string())]
    } else {
        vec![]
    };
    let children = kids(src, &mut budget, 1);
    let root = ANode::Element(AElem {
        name: QName::new("", "a"),
        decls,
        attrs,
        children,
    });
    if src.bool() {
        ANode::Document(vec![root])
    } else {
        root
    }
}
