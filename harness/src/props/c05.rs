//! C05 — each manipulation call has exactly the effect an ordered-tree model predicts.

use xot::{Node, Xot};

use crate::bridge::{self, Handles, Snap};
use crate::engine::runner::guarded;
use crate::engine::{Ctx, Knobs, Plan, PlanKind, Property, Src, Tier, Verdict};
use crate::hist::{self, Op, Outcome};
use crate::model::forest::{Effect, Forest};
use crate::model::{ANode, MVal, QName};

pub struct C05;

pub struct Sim {
    pub xot: Xot,
    pub model: Forest,
    pub h: Vec<Option<Node>>,
    pub known: Handles,
}

impl Sim {
    pub fn new() -> Self {
        Sim {
            xot: Xot::new(),
            model: Forest::default(),
            h: vec![],
            known: Handles::default(),
        }
    }

    pub fn grow(&mut self) {
        while self.h.len() < self.model.nodes.len() {
            self.h.push(None);
        }
    }

    pub fn bind(&mut self, id: usize, n: Node) {
        self.grow();
        self.h[id] = Some(n);
        self.known.add(n);
    }

    /// add a start tree to both sides
    pub fn add_start(&mut self, t: &ANode) -> Result<usize, String> {
        let mut created = vec![];
        let root = self.model.add_tree(t, &mut created);
        let mut hs = vec![];
        let was = self.model.consolidate;
        self.xot.set_text_consolidation(false);
        bridge::build(&mut self.xot, t, &mut hs)?;
        self.xot.set_text_consolidation(was);
        if hs.len() != created.len() {
            return Err("harness: build/add_tree disagree on node count".into());
        }
        for (id, n) in created.iter().zip(hs.iter()) {
            self.bind(*id, *n);
        }
        Ok(root)
    }

    pub fn handle(&self, id: usize) -> Node {
        self.h[id].expect("harness: unbound model node used as operand")
    }

    /// Compare the whole store with the model, binding nodes the call created.
    pub fn compare(&mut self, eff: &Effect) -> Result<(), String> {
        self.grow();
        // which of two merged text handles survived is not prescribed (DESIGN §8.1)
        for (surv, dead) in &eff.merges {
            match (self.h[*surv], self.h[*dead]) {
                (Some(hs), Some(hd)) => {
                    if self.xot.is_removed(hs) && !self.xot.is_removed(hd) {
                        self.h[*surv] = Some(hd);
                        self.h[*dead] = Some(hs);
                    }
                }
                (Some(hs), None) => {
                    if self.xot.is_removed(hs) {
                        // the freshly created node survived instead
                        self.h[*surv] = None;
                    }
                }
                _ => {}
            }
        }
        let snap = bridge::snapshot(&self.xot, &mut self.known)?;
        let mut visited = 0usize;
        for r in self.model.roots() {
            let hn = match self.h[r] {
                Some(x) => x,
                None => return Err(format!("harness: model root n{} is unbound", r)),
            };
            if !snap.nodes.contains_key(&hn) {
                return Err(format!(
                    "model root n{} ({}) is not a live node in xot",
                    r,
                    self.model.nodes[r].val.show()
                ));
            }
            if snap.nodes[&hn].parent.is_some() {
                return Err(format!(
                    "n{} ({}) should be the root of its tree but has a parent in xot",
                    r,
                    self.model.nodes[r].val.show()
                ));
            }
            self.walk(r, hn, &snap, &mut visited)?;
        }
        if visited != snap.nodes.len() {
            return Err(format!(
                "xot holds {} live nodes, the model {}: xot forest {}  model forest {}",
                snap.nodes.len(),
                visited,
                snap.show(),
                self.model.show()
            ));
        }
        for (id, n) in self.model.nodes.iter().enumerate() {
            if let Some(hn) = self.h[id] {
                let removed = self.xot.is_removed(hn);
                if n.alive && removed {
                    return Err(format!("n{} ({}) must be live but is_removed", id, n.val.show()));
                }
                if !n.alive && !removed {
                    return Err(format!(
                        "n{} ({}) must have been destroyed but its handle is still live",
                        id,
                        n.val.show()
                    ));
                }
            } else if n.alive {
                return Err(format!("harness: live model node n{} never bound", id));
            }
        }
        // string values of every document / element
        for (id, n) in self.model.nodes.iter().enumerate() {
            if n.alive && matches!(n.val, MVal::Document | MVal::Element(_)) {
                let want = self.model.to_anode(id).string_value();
                let got = self.xot.string_value(self.h[id].unwrap());
                if want != got {
                    return Err(format!(
                        "string_value(n{}) = {:?}, the model says {:?}",
                        id, got, want
                    ));
                }
            }
        }
        Ok(())
    }

    fn walk(&mut self, id: usize, hn: Node, snap: &Snap, visited: &mut usize) -> Result<(), String> {
        match self.h[id] {
            Some(x) if x != hn => {
                return Err(format!(
                    "n{} ({}) is not where the model puts it: xot forest {}  model forest {}",
                    id,
                    self.model.nodes[id].val.show(),
                    snap.show(),
                    self.model.show()
                ))
            }
            _ => {}
        }
        self.h[id] = Some(hn);
        *visited += 1;
        let sn = &snap.nodes[&hn];
        if sn.val != self.model.nodes[id].val {
            return Err(format!(
                "n{}: xot has {}, the model {}",
                id,
                sn.val.show(),
                self.model.nodes[id].val.show()
            ));
        }
        let mk = self.model.nodes[id].kids.clone();
        if mk.len() != sn.kids.len() {
            return Err(format!(
                "n{} ({}) has {} children in xot, {} in the model: xot forest {}  model forest {}",
                id,
                sn.val.show(),
                sn.kids.len(),
                mk.len(),
                snap.show(),
                self.model.show()
            ));
        }
        for (k, hk) in mk.iter().zip(sn.kids.iter()) {
            self.walk(*k, *hk, snap, visited)?;
        }
        Ok(())
    }
}

fn g_qname(src: &mut Src, small: bool, attr: bool) -> QName {
    if small {
        QName::new("", if src.bool() { "b" } else { "a" })
    } else {
        let locals = ["a", "b", "c"];
        let nss = ["", "urn:a", "urn:b"];
        QName::new(
            nss[src.weighted(&[if attr { 8 } else { 5 }, 2, 2])],
            locals[src.choice(3)],
        )
    }
}

fn g_text(src: &mut Src, small: bool) -> String {
    if small {
        ["x", ""][src.weighted(&[3, 1])].to_string()
    } else {
        crate::gen::gen_text(src, crate::gen::Alpha::NoCtl, 3)
    }
}

/// Draw an operation whose operands satisfy the documented preconditions.
fn gen_valid_op(src: &mut Src, m: &Forest, small: bool, ctx: &mut Ctx) -> Option<Op> {
    let alive = m.alive();
    if alive.is_empty() {
        return Some(Op::New(MVal::Element(QName::new("", "a"))));
    }
    let holders: Vec<usize> = alive
        .iter()
        .copied()
        .filter(|n| m.is_element(*n) || m.is_document(*n))
        .collect();
    let elements: Vec<usize> = alive.iter().copied().filter(|n| m.is_element(*n)).collect();
    let movable: Vec<usize> = alive
        .iter()
        .copied()
        .filter(|n| m.is_ordinary(*n) && !m.is_document(*n))
        .collect();
    let pickv = |src: &mut Src, v: &[usize]| -> Option<usize> {
        if v.is_empty() {
            None
        } else {
            Some(v[src.choice_big(v.len())])
        }
    };
    let kind = src.weighted(&[
        5, 5, 5, 5, // append prepend insert_after insert_before
        3, 3, 4, 3, 3, 2, // detach remove replace wrap unwrap clone
        2, 2, 2, // attr node, ns node, any_append
        3, 2, // map ops, value setters
        2, 1, 2, // convenience appends, new_document_with_element, new
        1, 1, // parse, consolidation toggle
    ]);
    match kind {
        0 | 1 => {
            let p = pickv(src, &holders)?;
            // bias towards the parent's own children (same-position and sibling moves)
            let own: Vec<usize> = m.ordinary(p);
            let c = if !own.is_empty() && src.ratio(1, 3) {
                own[src.choice_big(own.len())]
            } else {
                pickv(src, &movable)?
            };
            if !m.valid_append(p, c) {
                ctx.label("gen_retry");
                return None;
            }
            Some(if kind == 0 { Op::Append(p, c) } else { Op::Prepend(p, c) })
        }
        2 | 3 => {
            let refs: Vec<usize> = movable
                .iter()
                .copied()
                .filter(|n| m.nodes[*n].parent.is_some())
                .collect();
            let r = pickv(src, &refs)?;
            let p = m.nodes[r].parent.unwrap();
            let sibs = m.ordinary(p);
            let n = if src.ratio(1, 2) {
                sibs[src.choice_big(sibs.len())]
            } else {
                pickv(src, &movable)?
            };
            if !m.valid_insert(r, n) {
                ctx.label("gen_retry");
                return None;
            }
            Some(if kind == 2 { Op::InsertAfter(r, n) } else { Op::InsertBefore(r, n) })
        }
        4 => Some(Op::Detach(pickv(src, &alive)?)),
        5 => Some(Op::Remove(pickv(src, &alive)?)),
        6 => {
            let os: Vec<usize> = movable
                .iter()
                .copied()
                .filter(|n| m.nodes[*n].parent.is_some())
                .collect();
            let o = pickv(src, &os)?;
            let p = m.nodes[o].parent.unwrap();
            let sibs = m.ordinary(p);
            let n = if src.ratio(1, 3) {
                sibs[src.choice_big(sibs.len())]
            } else {
                pickv(src, &movable)?
            };
            if !m.valid_replace(o, n) {
                ctx.label("gen_retry");
                return None;
            }
            Some(Op::Replace(o, n))
        }
        7 => {
            let n = pickv(src, &movable)?;
            if !m.valid_wrap(n) {
                ctx.label("gen_retry");
                return None;
            }
            Some(Op::Wrap(n, g_qname(src, small, false)))
        }
        8 => {
            let e = pickv(src, &elements)?;
            if !m.valid_unwrap(e) {
                ctx.label("gen_retry");
                return None;
            }
            Some(Op::Unwrap(e))
        }
        9 => Some(Op::CloneNode(pickv(src, &alive)?)),
        10 | 11 | 12 => {
            let e = pickv(src, &elements)?;
            let cat = if kind == 10 { 1 } else if kind == 11 { 0 } else { src.choice(2) as u8 };
            let cands: Vec<usize> = alive.iter().copied().filter(|n| m.cat(*n) == cat).collect();
            let a = pickv(src, &cands)?;
            Some(match kind {
                10 => Op::AppendAttrNode(e, a),
                11 => Op::AppendNsNode(e, a),
                _ => Op::AnyAppend(e, a),
            })
        }
        13 => {
            let e = pickv(src, &elements)?;
            Some(match src.choice(12) {
                0 => Op::AttrInsert(e, g_qname(src, small, true), g_text(src, small)),
                1 => Op::AttrRemove(e, g_qname(src, small, true)),
                2 => Op::AttrClear(e),
                3 => Op::AttrGetMut(e, g_qname(src, small, true), g_text(src, small)),
                4 => Op::SetAttribute(e, g_qname(src, small, true), g_text(src, small)),
                5 => Op::RemoveAttribute(e, g_qname(src, small, true)),
                6 => Op::AttrEntryOrInsert(e, g_qname(src, small, true), g_text(src, small)),
                7 => Op::NsInsert(e, ["", "p", "q"][src.choice(3)].into(), ["urn:a", "urn:b"][src.choice(2)].into()),
                8 => Op::NsRemove(e, ["", "p", "q"][src.choice(3)].into()),
                9 => Op::NsClear(e),
                10 => {
                    let (p, u): (String, String) = (["", "p", "q"][src.choice(3)].into(), ["urn:a", "urn:b"][src.choice(2)].into());
                    if src.ratio(1, 4) {
                        Op::AppendNamespace(e, p, u)
                    } else {
                        Op::SetNamespace(e, p, u)
                    }
                }
                _ => Op::RemoveNamespace(e, ["", "p", "q"][src.choice(3)].into()),
            })
        }
        14 => {
            let n = pickv(src, &alive)?;
            Some(match &m.nodes[n].val {
                MVal::Element(_) => {
                    if src.bool() {
                        let q = g_qname(src, small, false);
                        if src.ratio(1, 4) {
                            Op::ElementMutSetName(n, q)
                        } else {
                            Op::SetElementName(n, q)
                        }
                    } else {
                        Op::TextContentSet(n, g_text(src, small))
                    }
                }
                MVal::Text(_) => Op::TextSet(n, g_text(src, small)),
                MVal::Comment(_) => Op::CommentSet(
                    n,
                    if src.ratio(1, 4) { "a--b".into() } else { g_text(src, small) },
                ),
                MVal::PI(..) => {
                    let d = match src.choice(3) {
                        0 => None,
                        1 => Some(String::new()),
                        _ => Some(g_text(src, small)),
                    };
                    if src.ratio(1, 4) {
                        Op::PiSetTarget(n, ["pi", "t2", "xml-x"][src.choice(3)].to_string())
                    } else {
                        Op::PiSetData(n, d)
                    }
                }
                MVal::Attribute(..) => Op::AttrNodeSet(n, g_text(src, small)),
                MVal::Namespace(..) => Op::NsNodeSet(n, ["urn:a", "urn:b"][src.choice(2)].into()),
                MVal::Document => Op::TextContentSet(n, g_text(src, small)),
            })
        }
        15 => {
            let p = pickv(src, &holders)?;
            Some(match src.choice(4) {
                0 => Op::AppendText(p, g_text(src, small)),
                1 => Op::AppendElement(p, g_qname(src, small, false)),
                2 => Op::AppendComment(p, g_text(src, small)),
                _ => Op::AppendPi(p, "pi".into(), if src.bool() { Some("d".into()) } else { None }),
            })
        }
        16 => Some(Op::NewDocWithElement(pickv(src, &elements)?)),
        17 => Some(Op::New(match src.weighted(&[3, 4, 1, 1, 2, 2, 1]) {
            0 => MVal::Element(g_qname(src, small, false)),
            1 => MVal::Text(g_text(src, small)),
            2 => MVal::Comment(g_text(src, small)),
            3 => MVal::PI(QName::new("", "pi"), None),
            4 => MVal::Attribute(g_qname(src, small, true), g_text(src, small)),
            5 => MVal::Namespace(["", "p", "q"][src.choice(3)].into(), ["urn:a", "urn:b"][src.choice(2)].into()),
            _ => MVal::Document,
        })),
        18 => {
            if src.bool() {
                Some(Op::Parse(src.choice(hist::parse_pool().len())))
            } else {
                Some(Op::ParseFragment(src.choice(hist::fragment_pool().len())))
            }
        }
        _ => Some(Op::SetConsolidation(src.bool())),
    }
}

/// Create adjacent (and empty) text nodes under some element while
/// consolidation is off, then possibly switch it on again: the state in which
/// pre-existing adjacency meets consolidating moves.
pub fn adjacent_text_setup(sim: &mut Sim, src: &mut Src, log: &mut Vec<String>) -> Result<(), String> {
    sim.model.set_consolidation(false);
    sim.xot.set_text_consolidation(false);
    log.push("set_text_consolidation(false)".to_string());
    let holders: Vec<usize> = sim.model.alive().into_iter().filter(|n| sim.model.is_element(*n)).collect();
    if !holders.is_empty() {
        let p = holders[src.choice_big(holders.len())];
        for t in ["x", "", "y"] {
            let op = Op::AppendText(p, t.to_string());
            let eff = apply_model(&mut sim.model, &op);
            sim.grow();
            let hs = sim.h.clone();
            let hf = move |i: usize| hs[i].expect("unbound");
            hist::exec(&mut sim.xot, &op, &hf);
            sim.compare(&eff).map_err(|e| format!("harness: adjacent text setup: {}", e))?;
            log.push(op.show());
        }
    }
    if src.ratio(2, 3) {
        sim.model.set_consolidation(true);
        sim.xot.set_text_consolidation(true);
        log.push("set_text_consolidation(true)".to_string());
    }
    Ok(())
}

pub fn gen_valid_op_pub(src: &mut Src, m: &Forest, small: bool, ctx: &mut Ctx) -> Option<Op> {
    gen_valid_op(src, m, small, ctx)
}

/// what the model says the call does; None = the call is expected to return Err / None unchanged
pub fn apply_model(m: &mut Forest, op: &Op) -> Effect {
    use Op::*;
    match op {
        Append(p, c) => m.append(*p, *c),
        Prepend(p, c) => m.prepend(*p, *c),
        InsertAfter(r, n) => m.insert_after(*r, *n),
        InsertBefore(r, n) => m.insert_before(*r, *n),
        Detach(n) => m.detach(*n),
        Remove(n) => m.remove(*n),
        Replace(o, n) => m.replace(*o, *n),
        Wrap(n, q) => m.wrap(*n, q.clone()),
        Unwrap(e) => m.unwrap(*e),
        CloneNode(n) => m.clone_node(*n),
        AppendAttrNode(e, a) | AppendNsNode(e, a) => m.append_keyed_node(*e, *a),
        AnyAppend(p, c) => {
            if m.cat(*c) == 2 {
                let mut eff = m.append(*p, *c);
                eff.ret = Some(*c);
                eff
            } else {
                m.append_keyed_node(*p, *c)
            }
        }
        AttrInsert(e, q, v) => m.map_insert(*e, MVal::Attribute(q.clone(), v.clone())),
        SetAttribute(e, q, v) => {
            let mut eff = m.map_insert(*e, MVal::Attribute(q.clone(), v.clone()));
            eff.ret_val = None;
            eff
        }
        AttrRemove(e, q) => m.map_remove(*e, MVal::Attribute(q.clone(), String::new())),
        RemoveAttribute(e, q) => {
            let mut eff = m.map_remove(*e, MVal::Attribute(q.clone(), String::new()));
            eff.ret_val = None;
            eff
        }
        AttrClear(e) => m.map_clear(*e, 1),
        AttrGetMut(e, q, v) => {
            let key = MVal::Attribute(q.clone(), String::new());
            match m.map_get(*e, &key) {
                Some(old) => {
                    let mut eff = m.map_insert(*e, MVal::Attribute(q.clone(), v.clone()));
                    eff.ret_val = Some(Some(old));
                    eff
                }
                None => Effect {
                    ret_val: Some(None),
                    ..Default::default()
                },
            }
        }
        AttrEntryOrInsert(e, q, v) => {
            let key = MVal::Attribute(q.clone(), String::new());
            match m.map_get(*e, &key) {
                Some(old) => Effect {
                    ret_val: Some(Some(old)),
                    ..Default::default()
                },
                None => {
                    let mut eff = m.map_insert(*e, MVal::Attribute(q.clone(), v.clone()));
                    eff.ret_val = Some(Some(v.clone()));
                    eff
                }
            }
        }
        NsInsert(e, p, u) => m.map_insert(*e, MVal::Namespace(p.clone(), u.clone())),
        SetNamespace(e, p, u) => {
            let mut eff = m.map_insert(*e, MVal::Namespace(p.clone(), u.clone()));
            eff.ret_val = None;
            eff
        }
        NsRemove(e, p) => m.map_remove(*e, MVal::Namespace(p.clone(), String::new())),
        RemoveNamespace(e, p) => {
            let mut eff = m.map_remove(*e, MVal::Namespace(p.clone(), String::new()));
            eff.ret_val = None;
            eff
        }
        NsClear(e) => m.map_clear(*e, 0),
        SetElementName(e, q) | ElementMutSetName(e, q) => {
            m.nodes[*e].val = MVal::Element(q.clone());
            Effect::default()
        }
        AppendNamespace(e, p, u) => {
            // new_namespace_node + append_namespace_node: a new last declaration, or an update of the existing one
            let mut eff = m.map_insert(*e, MVal::Namespace(p.clone(), u.clone()));
            eff.ret_val = None;
            eff
        }
        PiSetTarget(n, t) => {
            if let MVal::PI(_, d) = m.nodes[*n].val.clone() {
                m.nodes[*n].val = MVal::PI(QName::new("", t), d);
            }
            Effect::default()
        }
        TextSet(n, s) => {
            m.nodes[*n].val = MVal::Text(s.clone());
            Effect::default()
        }
        CommentSet(n, s) => {
            if !s.contains("--") {
                m.nodes[*n].val = MVal::Comment(s.clone());
            }
            Effect::default()
        }
        PiSetData(n, d) => {
            if let MVal::PI(t, _) = m.nodes[*n].val.clone() {
                let d = match d {
                    Some(s) if !s.is_empty() => Some(s.clone()),
                    _ => None,
                };
                m.nodes[*n].val = MVal::PI(t, d);
            }
            Effect::default()
        }
        AttrNodeSet(n, s) => {
            if let MVal::Attribute(q, _) = m.nodes[*n].val.clone() {
                m.nodes[*n].val = MVal::Attribute(q, s.clone());
            }
            Effect::default()
        }
        NsNodeSet(n, s) => {
            if let MVal::Namespace(p, _) = m.nodes[*n].val.clone() {
                m.nodes[*n].val = MVal::Namespace(p, s.clone());
            }
            Effect::default()
        }
        TextContentSet(n, s) => m.text_content_set(*n, s),
        AppendText(p, s) => m.append_new(*p, MVal::Text(s.clone())),
        AppendElement(p, q) => m.append_new(*p, MVal::Element(q.clone())),
        AppendComment(p, s) => m.append_new(*p, MVal::Comment(s.clone())),
        AppendPi(p, t, d) => m.append_new(*p, MVal::PI(QName::new("", t), d.clone())),
        NewDocWithElement(e) => m.new_document_with_element(*e),
        New(v) => {
            let id = m.new_node(v.clone());
            Effect {
                created: vec![id],
                ret: Some(id),
                ..Default::default()
            }
        }
        Parse(i) => {
            let mut created = vec![];
            let r = m.add_tree(&hist::parse_pool()[*i].1, &mut created);
            Effect {
                created,
                ret: Some(r),
                ..Default::default()
            }
        }
        ParseFragment(i) => {
            let mut created = vec![];
            let r = m.add_tree(&hist::fragment_pool()[*i].1, &mut created);
            Effect {
                created,
                ret: Some(r),
                ..Default::default()
            }
        }
        SetConsolidation(b) => {
            m.set_consolidation(*b);
            Effect::default()
        }
        CloneWithPrefixes(_) | RemoveWs(_) | CreateMissingPrefixes(_) | Dedup(_) => {
            panic!("harness: op not modelled in C05")
        }
    }
}

fn touches_text_neighbour(m: &Forest, op: &Op) -> bool {
    let near_text = |n: usize| -> bool {
        m.prev(n).map(|p| m.is_text(p)).unwrap_or(false)
            || m.next(n).map(|p| m.is_text(p)).unwrap_or(false)
            || m.is_text(n)
    };
    match op {
        Op::Append(_, c) | Op::Prepend(_, c) => near_text(*c),
        Op::InsertAfter(r, n) | Op::InsertBefore(r, n) | Op::Replace(r, n) => {
            near_text(*n) || near_text(*r)
        }
        Op::Detach(n) | Op::Remove(n) | Op::Unwrap(n) => near_text(*n),
        _ => false,
    }
}

fn same_position(m: &Forest, op: &Op) -> bool {
    match op {
        Op::Append(p, c) => m.nodes[*c].parent == Some(*p) && m.ordinary(*p).last() == Some(c),
        Op::Prepend(p, c) => m.nodes[*c].parent == Some(*p) && m.ordinary(*p).first() == Some(c),
        Op::InsertAfter(r, n) => m.prev(*n) == Some(*r),
        Op::InsertBefore(r, n) => m.next(*n) == Some(*r),
        _ => false,
    }
}

impl Property for C05 {
    fn id(&self) -> &'static str {
        "C05"
    }
    fn rule(&self) -> &'static str {
        "case = start forest + history of manipulation calls whose operands satisfy the documented preconditions by construction (drawn from the reference forest model), consolidation on/off/toggled; after every call the bounded snapshot of the whole store (structure, values, attribute/declaration order, liveness of every handle, returned node/value, string_value of every element/document) must equal the ordered-forest model after the same operation. Non-trivial = at least one call that moved/removed a node with a text neighbour or asked for the position already occupied. Distinct by hash of (start forest, ops). Plan 'small' enumerates every (tiny tree, valid operation, operands) triple."
    }
    fn assumptions(&self) -> Vec<&'static str> {
        vec![
            "the forest model (written from the crate documentation) is the specification",
            "which of two merged text handles survives is not prescribed (both accepted)",
        ]
    }
    fn plans(&self, tier: Tier) -> Vec<Plan> {
        let small = Plan {
            name: "small",
            kind: PlanKind::Enumerate { limit: 1_500_000 },
            knobs: Knobs {
                max_nodes: 4,
                max_ops: 1,
                small: true,
                ..Default::default()
            },
        };
        match tier {
            Tier::Quick => vec![
                Plan {
                    name: "hist",
                    kind: PlanKind::Random {
                        cases: 120_000,
                        max_len: 400,
                    },
                    knobs: Knobs {
                        max_nodes: 24,
                        max_ops: 40,
                        ..Default::default()
                    },
                },
                small,
            ],
            Tier::Thorough => vec![
                Plan {
                    name: "hist",
                    kind: PlanKind::Random {
                        cases: 600_000,
                        max_len: 400,
                    },
                    knobs: Knobs {
                        max_nodes: 24,
                        max_ops: 40,
                        ..Default::default()
                    },
                },
                Plan {
                    name: "hist-long",
                    kind: PlanKind::Random {
                        cases: 40_000,
                        max_len: 2400,
                    },
                    knobs: Knobs {
                        max_nodes: 60,
                        max_ops: 200,
                        ..Default::default()
                    },
                },
                small,
                Plan {
                    name: "small2",
                    kind: PlanKind::Enumerate { limit: 8_000_000 },
                    knobs: Knobs {
                        max_nodes: 4,
                        max_ops: 2,
                        small: true,
                        variant: 1,
                        ..Default::default()
                    },
                },
            ],
        }
    }

    fn check(&self, src: &mut Src, ctx: &mut Ctx) -> Verdict {
        let small = ctx.knobs.small;
        let mut sim = Sim::new();
        let mut log: Vec<String> = vec![];
        if small && src.bool() {
            sim.model.set_consolidation(false);
            sim.xot.set_text_consolidation(false);
            log.push("consolidation off".into());
        }
        let start = hist::gen_start_forest(src, small, ctx.knobs.max_nodes.max(3));
        for t in &start {
            if let Err(e) = sim.add_start(t) {
                return Verdict::Fail(e);
            }
            log.push(format!("start {}", t.show()));
        }
        if let Err(e) = sim.compare(&Effect::default()) {
            return Verdict::Fail(format!("harness: start forest does not read back: {}", e));
        }
        if !small && src.ratio(1, 4) {
            ctx.label("adjacent_text_after_toggle");
            if let Err(e) = adjacent_text_setup(&mut sim, src, &mut log) {
                return Verdict::Fail(e);
            }
        }
        let nops = if small {
            ctx.knobs.max_ops
        } else {
            1 + src.choice(ctx.knobs.max_ops.max(1))
        };
        let mut executed: Vec<Op> = vec![];
        let mut interesting = false;
        let mut step = 0;
        let mut attempts = 0;
        while step < nops && attempts < nops * 4 + 8 {
            attempts += 1;
            if attempts > 1 && src.exhausted() {
                break;
            }
            let op = match gen_valid_op(src, &sim.model, small, ctx) {
                Some(op) => op,
                None => {
                    if small {
                        // in enumeration mode an invalid draw is simply not a case
                        break;
                    }
                    continue;
                }
            };
            step += 1;
            log.push(op.show());
            if same_position(&sim.model, &op) {
                ctx.label("same_position");
                interesting = true;
            }
            if touches_text_neighbour(&sim.model, &op) {
                ctx.label("text_neighbour");
                interesting = true;
            }
            ctx.label(op.name());
            let before = sim.model.clone();
            let eff = apply_model(&mut sim.model, &op);
            sim.grow();
            let hs: Vec<Option<Node>> = sim.h.clone();
            let hf = move |i: usize| hs[i].expect("harness: operand unbound");
            let out = guarded(|| hist::exec(&mut sim.xot, &op, &hf));
            executed.push(op.clone());
            let out = match out {
                Ok(o) => o,
                Err(p) => {
                    ctx.rendering(|| log.join("; "));
                    return Verdict::Fail(format!(
                        "step {} {}: panic on operands that satisfy the documented preconditions: {}",
                        step,
                        op.show(),
                        p
                    ));
                }
            };
            let fail = |sim: &Sim, msg: String, log: &Vec<String>, ctx: &mut Ctx| -> Verdict {
                ctx.rendering(|| log.join("; "));
                Verdict::Fail(format!(
                    "step {} {}: {} [model before: {}]",
                    log.len(),
                    op.show(),
                    msg,
                    before.show()
                ))
                .also(sim)
            };
            match &out {
                Outcome::Err(e) => {
                    // CommentSet with "--" is the only modelled refusal
                    let expected_err = matches!(&op, Op::CommentSet(_, s) if s.contains("--"));
                    if !expected_err {
                        ctx.label("valid_call_refused");
                        // nothing demands success; the store must then be unchanged
                        sim.model = before.clone();
                    }
                    if let Err(m) = sim.compare(&Effect::default()) {
                        return fail(&sim, format!("returned Err({}) and: {}", e, m), &log, ctx);
                    }
                    continue;
                }
                Outcome::Node(n) => {
                    if let Some(r) = eff.ret {
                        sim.grow();
                        match sim.h[r] {
                            Some(x) if x != *n => {
                                return fail(
                                    &sim,
                                    format!(
                                        "returned a different node than the model predicts (expected n{})",
                                        r
                                    ),
                                    &log,
                                    ctx,
                                );
                            }
                            _ => sim.bind(r, *n),
                        }
                    }
                }
                Outcome::Val(v) => {
                    if let Some(want) = &eff.ret_val {
                        let agree = match (&op, want, v) {
                            // setters report only whether a slot existed
                            (Op::TextSet(..), _, _)
                            | (Op::CommentSet(..), _, _)
                            | (Op::PiSetData(..), _, _)
                            | (Op::PiSetTarget(..), _, _)
                            | (Op::ElementMutSetName(..), _, _)
                            | (Op::AttrNodeSet(..), _, _)
                            | (Op::NsNodeSet(..), _, _) => true,
                            (_, w, g) => w == g,
                        };
                        if !agree {
                            return fail(
                                &sim,
                                format!("returned {:?}, the model says {:?}", v, want),
                                &log,
                                ctx,
                            );
                        }
                    }
                }
                Outcome::Ok => {}
            }
            if let Err(m) = sim.compare(&eff) {
                return fail(&sim, m, &log, ctx);
            }
        }
        ctx.fingerprint(&(start, executed, sim.model.ever_off));
        ctx.nontrivial = interesting;
        ctx.rendering(|| log.join("; "));
        Verdict::Pass
    }
}

trait Also {
    fn also(self, sim: &Sim) -> Self;
}
impl Also for Verdict {
    fn also(self, _sim: &Sim) -> Self {
        self
    }
}
