//! C14 — serialisation options change the spelling, never the content.

use xot::output::xml::{Declaration, Parameters};
use xot::output::Indentation;
use xot::{NameId, Xot};

use crate::bridge::{self, name_id};
use crate::engine::runner::guarded;
use crate::engine::{Ctx, Knobs, Plan, PlanKind, Property, Src, Tier, Verdict};
use crate::gen::{self, Alpha, TreeOpts};
use crate::model::{AElem, ANode, QName, XML_NS};
use crate::props::common::{same_tree, Cmp};

pub struct C14;

pub fn element_names(n: &ANode, out: &mut Vec<QName>) {
    if let ANode::Element(e) = n {
        if !out.contains(&e.name) {
            out.push(e.name.clone());
        }
    }
    for c in n.children() {
        element_names(c, out);
    }
}

fn sprinkle_xml_space(n: &mut ANode, src: &mut Src) {
    if let ANode::Element(e) = n {
        if src.ratio(1, 5) && !e.attrs.iter().any(|(q, _)| q.ns == XML_NS && q.local == "space") {
            let v = ["preserve", "default", "other"][src.weighted(&[3, 2, 1])];
            e.attrs.push((QName::new(XML_NS, "space"), v.to_string()));
        }
    }
    if let Some(ch) = n.children_mut() {
        for c in ch.iter_mut() {
            sprinkle_xml_space(c, src);
        }
    }
}

fn is_added_ws(t: &str) -> bool {
    !t.is_empty() && t.chars().all(|c| c == ' ' || c == '\n')
}

struct IndentCtx<'a> {
    suppress: &'a [QName],
}

/// Compare original and reparsed-after-indentation trees.
fn indent_walk(o: &ANode, r: &ANode, sticky_no_add: bool, preserve: bool, cx: &IndentCtx, path: &str, added: &mut usize) -> Result<(), String> {
    match (o, r) {
        (ANode::Document(oc), ANode::Document(rc)) => kids(oc, rc, true, sticky_no_add, preserve, cx, path, added),
        (ANode::Element(oe), ANode::Element(re)) => {
            let shell = |e: &AElem| ANode::Element(AElem { children: vec![], ..e.clone() });
            same_tree(&shell(re), &shell(oe), Cmp::content()).map_err(|e| format!("{}: {}", path, e))?;
            let has_text = oe.children.iter().any(|c| c.is_text());
            let suppressed = cx.suppress.contains(&oe.name);
            let preserve = match oe.attrs.iter().find(|(q, _)| q.ns == XML_NS && q.local == "space") {
                Some((_, v)) if v == "preserve" => true,
                Some((_, v)) if v == "default" => false,
                _ => preserve,
            };
            let sticky = sticky_no_add || has_text || suppressed;
            let no_add_here = sticky || preserve;
            let p = format!("{}{}/", path, oe.name.local);
            kids(&oe.children, &re.children, no_add_here, sticky, preserve, cx, &p, added)
        }
        (a, b) => {
            if a != b {
                Err(format!("{}: {} became {}", path, a.show(), b.show()))
            } else {
                Ok(())
            }
        }
    }
}

#[allow(clippy::too_many_arguments)]
fn kids(oc: &[ANode], rc: &[ANode], no_add: bool, sticky: bool, preserve: bool, cx: &IndentCtx, path: &str, added: &mut usize) -> Result<(), String> {
    let mut i = 0;
    for r in rc {
        if i < oc.len() {
            // try to match the next original child
            let is_match_kind = std::mem::discriminant(r) == std::mem::discriminant(&oc[i]);
            if let ANode::Text(t) = r {
                if !oc[i].is_text() {
                    // a text node the original does not have here
                    if no_add {
                        return Err(format!("{}: whitespace text {:?} was added where no text may be added (mixed content / xml:space=preserve / suppressed element)", path, t));
                    }
                    if !is_added_ws(t) {
                        return Err(format!("{}: added text {:?} is not whitespace-only", path, t));
                    }
                    *added += 1;
                    continue;
                }
            }
            if !is_match_kind {
                return Err(format!("{}[{}]: {} became {}", path, i, oc[i].show(), r.show()));
            }
            indent_walk(&oc[i], r, sticky, preserve, cx, &format!("{}[{}]", path, i), added)?;
            i += 1;
        } else {
            match r {
                ANode::Text(t) => {
                    if no_add {
                        return Err(format!("{}: trailing whitespace text {:?} was added where no text may be added (mixed content / xml:space=preserve / suppressed element)", path, t));
                    }
                    if !is_added_ws(t) {
                        return Err(format!("{}: added text {:?} is not whitespace-only", path, t));
                    }
                    *added += 1;
                }
                other => return Err(format!("{}: extra node {} after indentation", path, other.show())),
            }
        }
    }
    if i != oc.len() {
        return Err(format!("{}: {} of {} children survived indentation + reparse", path, i, oc.len()));
    }
    Ok(())
}

impl Property for C14 {
    fn id(&self) -> &'static str {
        "C14"
    }
    fn rule(&self) -> &'static str {
        "case = well-scoped representable tree (text concentrated on ']' / '>' runs and ']]>', xml:space attributes sprinkled at any depth) x serialisation parameters (any subset of the tree's element names plus absent names as cdata_section_elements and as suppress list, unescaped_gt, declaration absent / with / without encoding and standalone, indentation on/off; documents and element-rooted subtrees). Without indentation the reparsed read-back must equal the source tree; with indentation a parallel walk allows only ADDED whitespace-only text nodes, and none below a mixed-content element, inside xml:space=preserve (innermost attribute decides) or below a suppressed element. Non-trivial = text with ]] / ]]> / > under a CDATA-section element or unescaped_gt, or an xml:space attribute at depth >= 1, or a suppress list that hits. Distinct by hash of (tree, parameters)."
    }
    fn assumptions(&self) -> Vec<&'static str> {
        vec!["the doctype parameter is excluded: the statement does not mention it and xot's parser rejects DTDs"]
    }
    fn plans(&self, tier: Tier) -> Vec<Plan> {
        let mk = |name: &'static str, cases, variant| Plan {
            name,
            kind: PlanKind::Random { cases, max_len: 1200 },
            knobs: Knobs { max_nodes: 30, variant, ..Default::default() },
        };
        match tier {
            Tier::Quick => vec![mk("plain", 250_000, 0), mk("indent", 250_000, 1)],
            Tier::Thorough => vec![mk("plain", 1_000_000, 0), mk("indent", 1_000_000, 1)],
        }
    }

    fn check(&self, src: &mut Src, ctx: &mut Ctx) -> Verdict {
        let indent = ctx.knobs.variant == 1;
        let mut o = TreeOpts::xml(ctx.knobs.max_nodes);
        o.alpha = if src.ratio(2, 3) { Alpha::Brackets } else { Alpha::Full };
        o.max_depth = 6;
        let mut doc = if src.bool() { gen::gen_document(src, &o) } else { gen::gen_element_tree(src, &o) };
        sprinkle_xml_space(&mut doc, src);
        let mut xot = Xot::new();
        let mut hs = vec![];
        let root = match bridge::build(&mut xot, &doc, &mut hs) {
            Ok(r) => r,
            Err(e) => return Verdict::Fail(format!("harness: {}", e)),
        };
        // parameters
        let mut names = vec![];
        element_names(&doc, &mut names);
        names.push(QName::new("", "absent"));
        names.push(QName::new("urn:a", "a"));
        let subset = |src: &mut Src, names: &[QName]| -> Vec<QName> {
            match src.weighted(&[3, 4, 1]) {
                0 => vec![],
                1 => names.iter().filter(|_| src.ratio(1, 3)).cloned().collect(),
                _ => names.to_vec(),
            }
        };
        let cdata_q = subset(src, &names);
        let suppress_q = if indent { subset(src, &names) } else { vec![] };
        let unescaped_gt = src.bool();
        let declaration = match src.choice(4) {
            0 => None,
            1 => Some(Declaration { encoding: None, standalone: None }),
            2 => Some(Declaration { encoding: Some("UTF-8".into()), standalone: None }),
            _ => Some(Declaration { encoding: Some("UTF-8".into()), standalone: Some(src.bool()) }),
        };
        let cdata_ids: Vec<NameId> = cdata_q.iter().map(|q| name_id(&mut xot, q)).collect();
        let suppress_ids: Vec<NameId> = suppress_q.iter().map(|q| name_id(&mut xot, q)).collect();
        let params = Parameters {
            indentation: if indent { Some(Indentation { suppress: suppress_ids }) } else { None },
            cdata_section_elements: cdata_ids,
            declaration: declaration.clone(),
            doctype: None,
            unescaped_gt,
        };
        ctx.fingerprint(&(doc.clone(), format!("{:?}{:?}{}{:?}{}", cdata_q, suppress_q, unescaped_gt, declaration.is_some(), indent)));
        ctx.rendering(|| format!("{} cdata={:?} suppress={:?} unescaped_gt={} decl={:?} indent={}", doc.show(), cdata_q.iter().map(|q| q.show()).collect::<Vec<_>>(), suppress_q.iter().map(|q| q.show()).collect::<Vec<_>>(), unescaped_gt, declaration, indent));
        // non-triviality
        let mut nt = false;
        fn walk_nt(n: &ANode, depth: usize, cdata: &[QName], gt: bool, suppress: &[QName], nt: &mut bool) {
            if let ANode::Element(e) = n {
                let texty = e.children.iter().any(|c| matches!(c, ANode::Text(t) if t.contains("]]") || t.contains('>')));
                if texty && (cdata.contains(&e.name) || gt) {
                    *nt = true;
                }
                if depth >= 1 && e.attrs.iter().any(|(q, _)| q.ns == XML_NS && q.local == "space") {
                    *nt = true;
                }
                if suppress.contains(&e.name) && !e.children.is_empty() {
                    *nt = true;
                }
            }
            for c in n.children() {
                walk_nt(c, depth + 1, cdata, gt, suppress, nt);
            }
        }
        walk_nt(&doc, 0, &cdata_q, unescaped_gt, &suppress_q, &mut nt);
        ctx.nontrivial = nt;

        let s = match guarded(|| xot.serialize_xml_string(params, root)) {
            Ok(Ok(s)) => s,
            Ok(Err(e)) => return Verdict::Fail(format!("serialize_xml_string failed: {}", e)),
            Err(p) => return Verdict::Fail(format!("serialize_xml_string panicked: {}", p)),
        };
        let re = match guarded(|| xot.parse(&s)) {
            Ok(Ok(r)) => r,
            Ok(Err(e)) => return Verdict::Fail(format!("output {:?} is not accepted: {}", s, e)),
            Err(p) => return Verdict::Fail(format!("parsing the output panicked: {}", p)),
        };
        let got = match bridge::read(&xot, re) {
            Ok(g) => g,
            Err(e) => return Verdict::Fail(e),
        };
        let want = match &doc {
            ANode::Document(_) => doc.clone(),
            other => ANode::Document(vec![other.clone()]),
        };
        if !indent {
            if let Err(e) = same_tree(&got, &want, Cmp::content()) {
                return Verdict::Fail(format!("output {:?} reparses differently: {}", s, e));
            }
            // independent reading of the same output
            match crate::indep::xmltok::read_xml_document(&s) {
                Ok(ind) => {
                    if let Err(e) = same_tree(&ind, &want, Cmp::content()) {
                        return Verdict::Fail(format!("output {:?} read by an independent reader differs: {}", s, e));
                    }
                }
                Err(e) => return Verdict::Fail(format!("output {:?} is not well-formed for an independent reader: {}", s, e)),
            }
            let re_cmp = if matches!(doc, ANode::Document(_)) { re } else { xot.document_element(re).unwrap() };
            if !xot.deep_equal(root, re_cmp) {
                return Verdict::Fail(format!("deep_equal(original, reparsed) is false for output {:?}", s));
            }
        } else {
            let cx = IndentCtx { suppress: &suppress_q };
            let mut added = 0;
            if let Err(e) = indent_walk(&want, &got, false, false, &cx, "/", &mut added) {
                return Verdict::Fail(format!("indented output {:?}: {}", s, e));
            }
            if added > 0 {
                ctx.label("whitespace_added");
            }
        }
        Verdict::Pass
    }
}
