//! C04 — every reachable forest is structurally valid; handles stay meaningful.
//! C06 — a refused manipulation changes nothing; calls on live nodes do not panic.
//!
//! Both run the same generated histories (whole mutating API, operands = any
//! live node of any kind) and need no model: C04 checks invariants on the
//! robust snapshot after every step, C06 compares the full observable state
//! before and after every refused call.

use std::collections::{HashMap, HashSet};

use xot::{Node, Xot};

use crate::bridge::{self, Handles, Snap};
use crate::engine::runner::guarded;
use crate::engine::{Ctx, Knobs, Plan, PlanKind, Property, Src, Tier, Verdict};
use crate::hist::{self, Op, OpMix, Outcome};
use crate::model::{Kind, MVal};

pub struct C04;
pub struct C06;

#[derive(PartialEq, Eq, Clone, Copy)]
enum Mode {
    Invariants,
    Refusal,
}

/// everything observable about the store (C06's "nothing observable has changed")
#[derive(PartialEq, Debug, Clone)]
struct Observation {
    snap: Snap,
    serial: Vec<(Node, Result<String, String>)>,
    live: Vec<(Node, bool)>,
}

fn observe(xot: &Xot, known: &mut Handles) -> Result<Observation, String> {
    let snap = bridge::snapshot(xot, known)?;
    let mut serial = vec![];
    let mut roots = snap.roots.clone();
    roots.sort_by_key(|r| known.all.iter().position(|k| k == r));
    for r in roots {
        let k = snap.nodes[&r].val.kind();
        if k == Kind::Document || k == Kind::Element {
            let s = match guarded(|| xot.to_string(r)) {
                Ok(Ok(s)) => Ok(s),
                Ok(Err(e)) => Err(e.to_string()),
                Err(p) => Err(format!("panic: {}", p)),
            };
            serial.push((r, s));
        }
    }
    let live = known.all.iter().map(|h| (*h, xot.is_removed(*h))).collect();
    Ok(Observation { snap, serial, live })
}

fn diff_obs(a: &Observation, b: &Observation) -> String {
    if a.live != b.live {
        for (x, y) in a.live.iter().zip(b.live.iter()) {
            if x != y {
                return format!("liveness of handle {:?} changed: removed {} -> {}", x.0, x.1, y.1);
            }
        }
        return "set of handles changed".into();
    }
    if a.snap != b.snap {
        return format!("forest before: {}  after: {}", a.snap.show(), b.snap.show());
    }
    for (x, y) in a.serial.iter().zip(b.serial.iter()) {
        if x != y {
            return format!("serialisation changed: {:?} -> {:?}", x.1, y.1);
        }
    }
    "observation differs".into()
}

/// start forests with runs of adjacent (and empty) text nodes, as left behind by work done
/// while text consolidation was off; consolidation is ON again when the history starts
fn adjacent_start(src: &mut Src, small: bool, max_nodes: usize) -> Vec<crate::model::ANode> {
    use crate::model::{AElem, ANode, QName};
    let t = |s: &str| ANode::Text(s.to_string());
    let el = |n: &str, ch: Vec<ANode>| ANode::Element(AElem { name: QName::new("", n), decls: vec![], attrs: vec![], children: ch });
    if small {
        let tree = match src.choice(5) {
            0 => el("a", vec![t("x"), t("c"), t("y")]),
            1 => el("a", vec![el("b", vec![]), t("x"), t("c"), t("y")]),
            2 => el("a", vec![t("x"), t("c"), t("y"), el("b", vec![])]),
            3 => el("a", vec![el("b", vec![t("x"), t("")]), t("y"), t("z")]),
            _ => el("a", vec![t("x"), t("y"), ANode::Comment("c".into()), t(""), t("z")]),
        };
        return vec![ANode::Document(vec![tree]), t("w")];
    }
    let mut forest = hist::gen_start_forest(src, false, max_nodes);
    fn inject(n: &mut ANode, src: &mut Src) {
        if let Some(ch) = n.children_mut() {
            for c in ch.iter_mut() {
                inject(c, src);
            }
        }
        if let ANode::Element(e) = n {
            if src.ratio(1, 2) {
                let at = src.choice(e.children.len() + 1);
                let run = 2 + src.choice(3);
                for k in 0..run {
                    let s = ["x", "", "y", " "][src.choice(4)];
                    e.children.insert(at + k, ANode::Text(s.to_string()));
                }
            }
        }
    }
    for tr in forest.iter_mut() {
        inject(tr, src);
    }
    forest
}

fn run(mode: Mode, src: &mut Src, ctx: &mut Ctx) -> Verdict {
    let small = ctx.knobs.small;
    let mut xot = Xot::new();
    let mut known = Handles::default();
    let start = if ctx.knobs.variant == 1 {
        adjacent_start(src, small, ctx.knobs.max_nodes.max(3))
    } else {
        hist::gen_start_forest(src, small, ctx.knobs.max_nodes.max(3))
    };
    let mut log: Vec<String> = vec![];
    for t in &start {
        let mut hs = vec![];
        // start forests may hold adjacent text: build with consolidation off, then restore
        xot.set_text_consolidation(false);
        match bridge::build(&mut xot, t, &mut hs) {
            Ok(_) => {}
            Err(e) => return Verdict::Fail(format!("harness: cannot build start tree: {}", e)),
        }
        xot.set_text_consolidation(true);
        for h in hs {
            known.add(h);
        }
        log.push(format!("start {}", t.show()));
    }
    if ctx.knobs.variant == 2 {
        // plan hist-parsed: the forest also holds trees made by the PARSER from generated, lexically
        // rich renderings (CDATA runs, references, CR / CRLF line ends): "trees obtained by parsing"
        let n = 1 + src.choice(2);
        for _ in 0..n {
            let fragment = src.bool();
            let kn = Knobs { max_nodes: 8, ..Default::default() };
            if let Ok(case) = crate::props::c02::make_case(src, &kn, fragment, false, true) {
                let text = case.rendered.text.clone();
                let r = guarded(|| if fragment { xot.parse_fragment(&text) } else { xot.parse(&text) });
                if let Ok(Ok(d)) = r {
                    let all: Vec<Node> = xot.all_descendants(d).take(10_000).collect();
                    for x in all {
                        known.add(x);
                    }
                    known.add(d);
                    log.push(format!("start parse({:?})", text));
                    ctx.label("parsed_start_tree");
                }
            }
        }
    }
    let mut never_off = !start.iter().any(has_adjacent_text);
    // ids parsed with xml:id: (document, id)
    let mut xml_ids: Vec<(Node, String)> = vec![];
    let mut removed_once: HashSet<Node> = HashSet::new();
    let mut kinds: HashMap<Node, Kind> = HashMap::new();
    let mix = OpMix::all();

    let mut obs = match observe(&xot, &mut known) {
        Ok(o) => o,
        Err(e) => return Verdict::Fail(format!("start forest already invalid: {}", e)),
    };
    if let Err(e) = bridge::check_structure(&xot, &obs.snap, never_off) {
        if ctx.knobs.variant == 2 {
            // the only part of this start forest xot built on its own is what the parser returned
            if mode == Mode::Refusal {
                // not C06's business (C03 / C04 own it): nothing to say about this case
                ctx.label("parsed_start_tree_invalid");
                return Verdict::Pass;
            }
            ctx.rendering(|| log.join("; "));
            return Verdict::Fail(format!("a tree returned by the parser violates the structural invariants: {}", e));
        }
        return Verdict::Fail(format!("harness: start forest violates invariants: {}", e));
    }
    for (n, sn) in &obs.snap.nodes {
        kinds.insert(*n, sn.val.kind());
    }

    let nops = if small { 1 } else { 1 + src.choice(ctx.knobs.max_ops.max(1)) };
    let mut moves_ok = 0;
    let mut removed_then_alloc = false;
    let mut saw_removal = false;
    let mut refused_attached = 0;
    let mut executed: Vec<Op> = vec![];
    for step in 0..nops {
        if step > 0 && src.exhausted() {
            break;
        }
        let live: Vec<usize> = known
            .all
            .iter()
            .enumerate()
            .filter(|(_, h)| !xot.is_removed(**h))
            .map(|(i, _)| i)
            .collect();
        if live.is_empty() {
            break;
        }
        let mut pick = |s: &mut Src| live[s.choice_big(live.len())];
        let op = hist::gen_op(src, &mix, small, &mut pick);
        log.push(op.show());
        executed.push(op.clone());
        let handles = known.all.clone();
        let h = move |i: usize| handles[i];
        let out = guarded(|| hist::exec(&mut xot, &op, &h));
        match &op {
            Op::SetConsolidation(false) => never_off = false,
            _ => {}
        }
        let out = match out {
            Ok(o) => o,
            Err(p) => {
                let documented = hist::may_panic_documented(&op)
                    && hist::DOCUMENTED_PANICS.iter().any(|d| p.starts_with(d));
                if documented {
                    ctx.label("documented_panic");
                    // state must be untouched; both modes simply go on
                    match observe(&xot, &mut known) {
                        Ok(o2) => {
                            if mode == Mode::Refusal && o2 != obs {
                                ctx.rendering(|| log.join("; "));
                                return Verdict::Fail(format!(
                                    "step {} {}: documented panic but state changed: {}",
                                    step,
                                    op.show(),
                                    diff_obs(&obs, &o2)
                                ));
                            }
                            obs = o2;
                        }
                        Err(e) => {
                            ctx.rendering(|| log.join("; "));
                            return Verdict::Fail(format!(
                                "step {} {}: after documented panic: {}",
                                step,
                                op.show(),
                                e
                            ));
                        }
                    }
                    continue;
                }
                ctx.rendering(|| log.join("; "));
                if mode == Mode::Refusal {
                    return Verdict::Fail(format!(
                        "step {} {}: undocumented panic: {}",
                        step,
                        op.show(),
                        p
                    ));
                } else {
                    // C06 owns panics; the store may be in any state afterwards
                    ctx.label("ended_by_panic");
                    break;
                }
            }
        };
        if let Outcome::Node(n) = &out {
            known.add(*n);
        }
        if let (Op::Parse(2), Outcome::Node(d)) = (&op, &out) {
            xml_ids.push((*d, "i1".into()));
            xml_ids.push((*d, "i2".into()));
        }
        let o2 = match observe(&xot, &mut known) {
            Ok(o) => o,
            Err(e) => {
                ctx.rendering(|| log.join("; "));
                // a structurally broken forest is C04's finding; C06 reports it only for refusals
                if mode == Mode::Invariants || matches!(out, Outcome::Err(_)) {
                    return Verdict::Fail(format!(
                        "step {} {} -> {:?}: structure broken: {}",
                        step,
                        op.show(),
                        short(&out),
                        e
                    ));
                }
                ctx.label("ended_by_broken_structure");
                break;
            }
        };
        match mode {
            Mode::Invariants => {
                if let Err(e) = bridge::check_structure(&xot, &o2.snap, never_off) {
                    ctx.rendering(|| log.join("; "));
                    return Verdict::Fail(format!(
                        "step {} {} -> {:?}: {}",
                        step,
                        op.show(),
                        short(&out),
                        e
                    ));
                }
                // handles: once removed, removed for ever
                for (hn, removed) in &o2.live {
                    if *removed {
                        removed_once.insert(*hn);
                    } else if removed_once.contains(hn) {
                        ctx.rendering(|| log.join("; "));
                        return Verdict::Fail(format!(
                            "step {} {}: is_removed({:?}) was true earlier and is false now",
                            step,
                            op.show(),
                            hn
                        ));
                    }
                }
                // a handle keeps its node kind
                for (n, sn) in &o2.snap.nodes {
                    let k = sn.val.kind();
                    match kinds.get(n) {
                        Some(old) if *old != k => {
                            ctx.rendering(|| log.join("; "));
                            return Verdict::Fail(format!(
                                "step {} {}: handle {:?} changed kind {:?} -> {:?}",
                                step,
                                op.show(),
                                n,
                                old,
                                k
                            ));
                        }
                        _ => {
                            kinds.insert(*n, k);
                        }
                    }
                }
                // no accessor hands out a removed node
                for (d, id) in &xml_ids {
                    if xot.is_removed(*d) {
                        continue;
                    }
                    if let Some(n) = xot.xml_id_node(*d, id) {
                        if xot.is_removed(n) {
                            ctx.rendering(|| log.join("; "));
                            return Verdict::Fail(format!(
                                "step {} {}: xml_id_node(doc, {:?}) hands out a removed node",
                                step,
                                op.show(),
                                id
                            ));
                        }
                    }
                }
            }
            Mode::Refusal => {
                if let Outcome::Err(e) = &out {
                    if o2 != obs {
                        ctx.rendering(|| log.join("; "));
                        return Verdict::Fail(format!(
                            "step {} {} returned Err({}) but changed the store: {}",
                            step,
                            op.show(),
                            e,
                            diff_obs(&obs, &o2)
                        ));
                    }
                }
            }
        }
        // measurements
        match &out {
            Outcome::Err(_) => {
                ctx.label("op_err");
                if both_attached(&op, &known, &obs.snap) {
                    refused_attached += 1;
                }
            }
            _ => {
                ctx.label("op_ok");
                if matches!(
                    op,
                    Op::Append(..)
                        | Op::Prepend(..)
                        | Op::InsertAfter(..)
                        | Op::InsertBefore(..)
                        | Op::Replace(..)
                        | Op::Wrap(..)
                        | Op::Unwrap(..)
                        | Op::AnyAppend(..)
                        | Op::AppendAttrNode(..)
                        | Op::AppendNsNode(..)
                ) {
                    moves_ok += 1;
                }
            }
        }
        let removed_now = o2.live.iter().filter(|(_, r)| *r).count()
            > obs.live.iter().filter(|(_, r)| *r).count();
        if saw_removal && o2.live.len() > obs.live.len() {
            removed_then_alloc = true;
        }
        if removed_now {
            saw_removal = true;
        }
        obs = o2;
    }
    ctx.fingerprint(&(start.clone(), executed));
    ctx.nontrivial = match mode {
        Mode::Invariants => moves_ok >= 1 && (removed_then_alloc || small),
        Mode::Refusal => refused_attached >= 1,
    };
    if removed_then_alloc {
        ctx.label("removal_then_allocation");
    }
    ctx.rendering(|| log.join("; "));
    Verdict::Pass
}

fn short(o: &Outcome) -> String {
    match o {
        Outcome::Ok => "Ok".into(),
        Outcome::Node(_) => "Ok(node)".into(),
        Outcome::Val(v) => format!("Ok({:?})", v),
        Outcome::Err(e) => format!("Err({})", e),
    }
}

fn has_adjacent_text(a: &crate::model::ANode) -> bool {
    let ch = a.children();
    for w in ch.windows(2) {
        if w[0].is_text() && w[1].is_text() {
            return true;
        }
    }
    ch.iter().any(has_adjacent_text)
}

fn operands(op: &Op) -> Vec<usize> {
    use Op::*;
    match op {
        Append(a, b) | Prepend(a, b) | InsertAfter(a, b) | InsertBefore(a, b) | Replace(a, b)
        | AppendAttrNode(a, b) | AppendNsNode(a, b) | AnyAppend(a, b) => vec![*a, *b],
        Detach(a) | Remove(a) | Wrap(a, _) | Unwrap(a) | CloneNode(a) | CloneWithPrefixes(a)
        | AttrInsert(a, ..) | AttrRemove(a, ..) | AttrClear(a) | AttrGetMut(a, ..)
        | SetAttribute(a, ..) | RemoveAttribute(a, ..) | AttrEntryOrInsert(a, ..)
        | NsInsert(a, ..) | NsRemove(a, ..) | NsClear(a) | SetNamespace(a, ..) | AppendNamespace(a, ..) | ElementMutSetName(a, ..) | PiSetTarget(a, ..)
        | RemoveNamespace(a, ..) | SetElementName(a, ..) | TextSet(a, ..) | CommentSet(a, ..)
        | PiSetData(a, ..) | AttrNodeSet(a, ..) | NsNodeSet(a, ..) | TextContentSet(a, ..)
        | AppendText(a, ..) | AppendElement(a, ..) | AppendComment(a, ..) | AppendPi(a, ..)
        | NewDocWithElement(a) | RemoveWs(a) | CreateMissingPrefixes(a) | Dedup(a) => vec![*a],
        New(_) | Parse(_) | ParseFragment(_) | SetConsolidation(_) => vec![],
    }
}

fn both_attached(op: &Op, known: &Handles, snap: &Snap) -> bool {
    let ops = operands(op);
    ops.len() == 2
        && ops.iter().all(|i| {
            snap.nodes
                .get(&known.all[*i])
                .map(|n| n.parent.is_some())
                .unwrap_or(false)
        })
}

fn plans(tier: Tier, quick_cases: usize, thorough_cases: usize) -> Vec<Plan> {
    match tier {
        Tier::Quick => vec![
            Plan {
                name: "hist",
                kind: PlanKind::Random {
                    cases: quick_cases,
                    max_len: 400,
                },
                knobs: Knobs {
                    max_nodes: 24,
                    max_ops: 40,
                    ..Default::default()
                },
            },
            Plan {
                name: "small",
                kind: PlanKind::Enumerate { limit: 3_000_000 },
                knobs: Knobs {
                    max_nodes: 4,
                    max_ops: 1,
                    small: true,
                    ..Default::default()
                },
            },
            Plan {
                name: "small-adjacent",
                kind: PlanKind::Enumerate { limit: 3_000_000 },
                knobs: Knobs {
                    max_nodes: 4,
                    max_ops: 1,
                    small: true,
                    variant: 1,
                },
            },
            Plan {
                name: "hist-adjacent",
                kind: PlanKind::Random {
                    cases: quick_cases / 4,
                    max_len: 400,
                },
                knobs: Knobs {
                    max_nodes: 10,
                    max_ops: 30,
                    variant: 1,
                    ..Default::default()
                },
            },
            Plan {
                name: "hist-parsed",
                kind: PlanKind::Random {
                    cases: quick_cases / 3,
                    max_len: 600,
                },
                knobs: Knobs {
                    max_nodes: 10,
                    max_ops: 20,
                    variant: 2,
                    ..Default::default()
                },
            },
        ],
        Tier::Thorough => vec![
            Plan {
                name: "hist",
                kind: PlanKind::Random {
                    cases: thorough_cases,
                    max_len: 400,
                },
                knobs: Knobs {
                    max_nodes: 24,
                    max_ops: 40,
                    ..Default::default()
                },
            },
            Plan {
                name: "hist-long",
                kind: PlanKind::Random {
                    cases: thorough_cases / 5,
                    max_len: 2000,
                },
                knobs: Knobs {
                    max_nodes: 60,
                    max_ops: 200,
                    ..Default::default()
                },
            },
            Plan {
                name: "small",
                kind: PlanKind::Enumerate { limit: 3_000_000 },
                knobs: Knobs {
                    max_nodes: 4,
                    max_ops: 1,
                    small: true,
                    ..Default::default()
                },
            },
            Plan {
                name: "small5",
                kind: PlanKind::Enumerate { limit: 6_000_000 },
                knobs: Knobs {
                    max_nodes: 5,
                    max_ops: 1,
                    small: true,
                    ..Default::default()
                },
            },
            Plan {
                name: "small-adjacent",
                kind: PlanKind::Enumerate { limit: 3_000_000 },
                knobs: Knobs {
                    max_nodes: 4,
                    max_ops: 1,
                    small: true,
                    variant: 1,
                },
            },
            Plan {
                name: "hist-adjacent",
                kind: PlanKind::Random {
                    cases: thorough_cases / 4,
                    max_len: 400,
                },
                knobs: Knobs {
                    max_nodes: 10,
                    max_ops: 30,
                    variant: 1,
                    ..Default::default()
                },
            },
            Plan {
                name: "hist-parsed",
                kind: PlanKind::Random {
                    cases: thorough_cases / 3,
                    max_len: 600,
                },
                knobs: Knobs {
                    max_nodes: 10,
                    max_ops: 20,
                    variant: 2,
                    ..Default::default()
                },
            },
        ],
    }
}

impl Property for C04 {
    fn id(&self) -> &'static str {
        "C04"
    }
    fn rule(&self) -> &'static str {
        "case = start forest (documents, fragments, unattached elements, free attribute/namespace/text nodes in one Xot) + history of calls drawn from the whole mutating API with operands = any live node of any kind; after every step the bounded snapshot must satisfy all structural invariants, removed handles must stay removed, handles keep their kind, xml_id_node never returns a removed node. Non-trivial = at least one successful structural move and a removal followed by an allocation (small-scope plan: a successful move). Distinct by hash of (start forest, executed ops). Plan 'small' enumerates every (tiny tree, operation, operand tuple); plans 'small-adjacent' / 'hist-adjacent' start from forests with runs of adjacent and empty text nodes (left from a time when consolidation was off) with consolidation on again."
    }
    fn plans(&self, tier: Tier) -> Vec<Plan> {
        plans(tier, 120_000, 1_000_000)
    }
    fn check(&self, src: &mut Src, ctx: &mut Ctx) -> Verdict {
        run(Mode::Invariants, src, ctx)
    }
}

impl Property for C06 {
    fn id(&self) -> &'static str {
        "C06"
    }
    fn rule(&self) -> &'static str {
        "same histories as C04 (all operand tuples, including ones the call must refuse, and the element-only accessors on non-elements); a panic other than the three documented messages is a violation; after every call that returned Err the full observation (bounded snapshot of every tree, to_string of every document/element root, is_removed of every handle ever seen) must equal the observation before. Non-trivial = at least one refused call whose two operands were both attached nodes. Distinct by hash of (start forest, executed ops)."
    }
    fn plans(&self, tier: Tier) -> Vec<Plan> {
        plans(tier, 120_000, 1_000_000)
    }
    fn check(&self, src: &mut Src, ctx: &mut Ctx) -> Verdict {
        run(Mode::Refusal, src, ctx)
    }
}

#[allow(dead_code)]
fn _unused(_: MVal) {}
