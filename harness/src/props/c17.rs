//! C17 — source spans and error positions point at the right text.

use xot::{SpanInfoKey, Xot};

use crate::bridge::{self, name_id};
use crate::engine::runner::guarded;
use crate::engine::{Ctx, Knobs, Plan, PlanKind, Property, Src, Tier, Verdict};
use crate::gen::render::ItemKind;
use crate::indep::xmltok;
use crate::model::ANode;
use crate::props::c02::{make_case_opts, node_at};
use crate::props::c03::damage;
use crate::props::common::{same_tree, Cmp};

pub struct C17;

/// decode a text span that may run across CDATA section boundaries
fn decode_text_slice(s: &str, start_in_cdata: bool) -> Result<String, String> {
    let mut out = String::new();
    let mut rest = s;
    let mut cdata = start_in_cdata;
    loop {
        if cdata {
            match rest.find("]]>") {
                Some(p) => {
                    out.push_str(&xmltok::normalize_line_ends(&rest[..p]));
                    rest = &rest[p + 3..];
                    cdata = false;
                }
                None => {
                    out.push_str(&xmltok::normalize_line_ends(rest));
                    break;
                }
            }
        } else {
            match rest.find("<![CDATA[") {
                Some(p) => {
                    out.push_str(&xmltok::unescape(&xmltok::normalize_line_ends(&rest[..p]))?);
                    rest = &rest[p + 9..];
                    cdata = true;
                }
                None => {
                    if rest.contains('<') {
                        return Err("markup inside a text span".into());
                    }
                    out.push_str(&xmltok::unescape(&xmltok::normalize_line_ends(rest))?);
                    break;
                }
            }
        }
    }
    Ok(out)
}

fn value_at<'a>(exp: &'a ANode, path: &[usize]) -> Option<&'a ANode> {
    let mut cur = exp;
    for i in path {
        cur = cur.children().get(*i)?;
    }
    Some(cur)
}

impl Property for C17 {
    fn id(&self) -> &'static str {
        "C17"
    }
    fn rule(&self) -> &'static str {
        "span part: case = abstract document + lexical rendering by the harness renderer, which records the byte range of every item it writes (multi-byte characters, CDATA markers, references, in-tag whitespace included); parse_with_span_info / parse_fragment_with_span_info must record, for every element start/end, attribute name/value, text, comment, PI target/content of the tree, a span on char boundaries equal to the renderer's range, whose slice decodes to the node's value. Error part: renderings damaged by a well-formedness-breaking edit; every ParseError::span() must satisfy start <= end <= source length on char boundaries. Non-trivial = rendering with a multi-byte character before some item and a text node merged from several runs (span part) / a rejected damaged input (error part). Distinct by hash of the source text."
    }
    fn plans(&self, tier: Tier) -> Vec<Plan> {
        let mk = |name: &'static str, cases, variant| Plan {
            name,
            kind: PlanKind::Random { cases, max_len: 1200 },
            knobs: Knobs { max_nodes: 20, variant, ..Default::default() },
        };
        match tier {
            Tier::Quick => vec![mk("doc-spans", 300_000, 0), mk("fragment-spans", 150_000, 1), mk("error-spans", 200_000, 2)],
            Tier::Thorough => vec![mk("doc-spans", 2_000_000, 0), mk("fragment-spans", 800_000, 1), mk("error-spans", 1_000_000, 2)],
        }
    }

    fn check(&self, src: &mut Src, ctx: &mut Ctx) -> Verdict {
        let variant = ctx.knobs.variant;
        let fragment = variant == 1 || (variant == 2 && src.bool());
        let case = match make_case_opts(src, &ctx.knobs, fragment, false, true, true) {
            Ok(c) => c,
            Err(_) => return Verdict::Pass,
        };
        let mut xot = Xot::new();
        if variant == 2 {
            // error spans
            let (text, what) = damage(src, &case.rendered.text);
            ctx.fingerprint(&text);
            ctx.rendering(|| format!("{} -> {:?}", what, text));
            let r = guarded(|| {
                if fragment {
                    xot.parse_fragment_with_span_info(&text).map(|_| ())
                } else {
                    xot.parse_with_span_info(&text).map(|_| ())
                }
            });
            return match r {
                Err(_) => Verdict::Pass, // panics are C03's finding
                Ok(Ok(())) => {
                    ctx.label("damaged_but_accepted");
                    Verdict::Pass
                }
                Ok(Err(e)) => {
                    ctx.nontrivial = true;
                    ctx.label(what);
                    let sp = e.span();
                    if sp.start > sp.end || sp.end > text.len() {
                        return Verdict::Fail(format!("ParseError {:?} reports span {}..{} for a source of {} bytes", e, sp.start, sp.end, text.len()));
                    }
                    if !text.is_char_boundary(sp.start) || !text.is_char_boundary(sp.end) {
                        return Verdict::Fail(format!("ParseError {:?} reports span {}..{} which is not on character boundaries", e, sp.start, sp.end));
                    }
                    Verdict::Pass
                }
            };
        }
        let text = &case.rendered.text;
        let exp = &case.rendered.expected;
        ctx.fingerprint(text);
        ctx.rendering(|| format!("{:?}", text));
        let parsed = guarded(|| {
            if fragment {
                xot.parse_fragment_with_span_info(text)
            } else {
                xot.parse_with_span_info(text)
            }
        });
        let (root, info) = match parsed {
            Ok(Ok(x)) => x,
            _ => {
                ctx.label("not_parsed");
                return Verdict::Pass; // C02 / C03 own this
            }
        };
        // only meaningful when the tree is the expected one (C02's business otherwise)
        match bridge::read(&xot, root) {
            Ok(got) => {
                if same_tree(&got, exp, Cmp::no_decls()).is_err() {
                    ctx.label("tree_differs");
                    return Verdict::Pass;
                }
            }
            Err(_) => return Verdict::Pass,
        }
        let mut multibyte_before = false;
        let mut merged_text = false;
        for rec in &case.rendered.spans {
            let node = match node_at(&xot, root, &rec.path) {
                Some(n) => n,
                None => return Verdict::Fail("harness: path does not resolve".into()),
            };
            let (key, what): (SpanInfoKey, String) = match &rec.kind {
                ItemKind::ElementStart => (SpanInfoKey::ElementStart(node), "ElementStart".into()),
                ItemKind::ElementEnd => (SpanInfoKey::ElementEnd(node), "ElementEnd".into()),
                ItemKind::AttrName(q) => (SpanInfoKey::AttributeName(node, name_id(&mut xot, q)), format!("AttributeName({})", q.show())),
                ItemKind::AttrValue(q) => (SpanInfoKey::AttributeValue(node, name_id(&mut xot, q)), format!("AttributeValue({})", q.show())),
                ItemKind::Text => (SpanInfoKey::Text(node), "Text".into()),
                ItemKind::Comment => (SpanInfoKey::Comment(node), "Comment".into()),
                ItemKind::PiTarget => (SpanInfoKey::PiTarget(node), "PiTarget".into()),
                ItemKind::PiContent => (SpanInfoKey::PiContent(node), "PiContent".into()),
            };
            let sp = match info.get(key) {
                Some(s) => *s,
                None => return Verdict::Fail(format!("no {} span recorded for the node at {:?}", what, rec.path)),
            };
            if sp.start > sp.end || sp.end > text.len() || !text.is_char_boundary(sp.start) || !text.is_char_boundary(sp.end) {
                return Verdict::Fail(format!("{} span {}..{} is outside the source or not on character boundaries", what, sp.start, sp.end));
            }
            if sp.start != rec.start || sp.end != rec.end {
                return Verdict::Fail(format!(
                    "{} span at {:?} is {}..{} = {:?}, the item was written at {}..{} = {:?}",
                    what,
                    rec.path,
                    sp.start,
                    sp.end,
                    &text[sp.start..sp.end],
                    rec.start,
                    rec.end,
                    &text[rec.start..rec.end]
                ));
            }
            if text[..sp.start].chars().any(|c| c.len_utf8() > 1) {
                multibyte_before = true;
            }
            // decoding the slice gives the node's value
            let slice = &text[sp.start..sp.end];
            let node_val = value_at(exp, &rec.path);
            match (&rec.kind, node_val) {
                (ItemKind::Text, Some(ANode::Text(v))) => {
                    if slice.contains("<![CDATA[") || slice.contains("]]>") {
                        merged_text = true;
                    }
                    let a = decode_text_slice(slice, false);
                    let b = decode_text_slice(slice, true);
                    if a.as_deref() != Ok(v.as_str()) && b.as_deref() != Ok(v.as_str()) {
                        return Verdict::Fail(format!("Text span slice {:?} does not decode to the node's value {:?}", slice, v));
                    }
                }
                (ItemKind::Comment, Some(ANode::Comment(v))) => {
                    if slice != v {
                        return Verdict::Fail(format!("Comment span slice {:?} is not the comment {:?}", slice, v));
                    }
                }
                (ItemKind::PiTarget, Some(ANode::PI(t, _))) => {
                    if slice != t {
                        return Verdict::Fail(format!("PiTarget span slice {:?} is not the target {:?}", slice, t));
                    }
                }
                (ItemKind::PiContent, Some(ANode::PI(_, Some(d)))) => {
                    if slice != d {
                        return Verdict::Fail(format!("PiContent span slice {:?} is not the data {:?}", slice, d));
                    }
                }
                (ItemKind::AttrValue(q), Some(ANode::Element(e))) => {
                    if let Some((_, v)) = e.attrs.iter().find(|(k, _)| k == q) {
                        // literal white space is normalised to spaces; xml:id is further normalised
                        let raw = xmltok::normalize_line_ends(slice).replace('\t', " ").replace('\n', " ");
                        let dec = xmltok::unescape(&raw);
                        let is_id = q.ns == crate::model::XML_NS && q.local == "id";
                        let ok = match &dec {
                            Ok(d) => {
                                if is_id {
                                    d.split(' ').filter(|p| !p.is_empty()).collect::<Vec<_>>().join(" ") == *v
                                } else {
                                    d == v
                                }
                            }
                            Err(_) => false,
                        };
                        if !ok {
                            return Verdict::Fail(format!("AttributeValue span slice {:?} does not decode to {:?}", slice, v));
                        }
                    }
                }
                (ItemKind::ElementStart, Some(ANode::Element(e))) | (ItemKind::ElementEnd, Some(ANode::Element(e))) => {
                    let local = &e.name.local;
                    let ok = match rec.kind {
                        ItemKind::ElementStart => slice == local || slice.ends_with(&format!(":{}", local)),
                        _ => slice == "/>" || (slice.starts_with("</") && slice.ends_with('>') && slice.contains(local.as_str())),
                    };
                    if !ok {
                        return Verdict::Fail(format!("{} span slice {:?} is not the tag of element {}", what, slice, e.name.show()));
                    }
                }
                (ItemKind::AttrName(q), _) => {
                    if !(slice == q.local || slice.ends_with(&format!(":{}", q.local))) {
                        return Verdict::Fail(format!("AttributeName span slice {:?} is not the name {}", slice, q.show()));
                    }
                }
                _ => {}
            }
        }
        if multibyte_before {
            ctx.label("multibyte_before_item");
        }
        if merged_text {
            ctx.label("merged_text_runs");
        }
        ctx.nontrivial = multibyte_before && merged_text;
        Verdict::Pass
    }
}
