//! C13 — deep_equal is canonical-form equivalence; its variants relax it as documented.

use xot::{NameId, Node, Xot};

use crate::bridge::{self, name_id, qname_of};
use crate::engine::runner::guarded;
use crate::engine::{Ctx, Knobs, Plan, PlanKind, Property, Src, Tier, Verdict};
use crate::gen::{self, Alpha, Scoping, TreeOpts};
use crate::hist;
use crate::model::{canon, AElem, ANode, Canon, QName, XML_NS};

pub struct C13;

fn lower(s: &str) -> String {
    s.to_ascii_lowercase()
}

/// canonical form under a text comparator (false: ==, true: ASCII case-insensitive)
thread_local! {
    /// what "ci = true" means at the moment: 1 = ASCII case ignored, 2 = spaces ignored (a comparison
    /// that equates strings of different length)
    static LOOSE_MODE: std::cell::Cell<u8> = std::cell::Cell::new(1);
}

fn loose(s: &str) -> String {
    if LOOSE_MODE.with(|m| m.get()) == 2 {
        s.chars().filter(|c| *c != ' ').collect()
    } else {
        lower(s)
    }
}

fn loose_eq(x: &str, y: &str) -> bool {
    if LOOSE_MODE.with(|m| m.get()) == 2 {
        loose(x) == loose(y)
    } else {
        x.eq_ignore_ascii_case(y)
    }
}

fn canon_ci(n: &ANode, ci: bool) -> Canon {
    let f = |s: &str| if ci { loose(s) } else { s.to_string() };
    match n {
        ANode::Document(c) => Canon::Document(c.iter().map(|c| canon_ci(c, ci)).collect()),
        ANode::Element(e) => {
            let mut a: Vec<(QName, String)> = e.attrs.iter().map(|(q, v)| (q.clone(), f(v))).collect();
            a.sort();
            Canon::Element(e.name.clone(), a, e.children.iter().map(|c| canon_ci(c, ci)).collect())
        }
        ANode::Text(t) => Canon::Text(f(t)),
        ANode::Comment(t) => Canon::Comment(t.clone()),
        ANode::PI(t, d) => Canon::PI(t.clone(), d.as_deref().map(f)),
        ANode::Attribute(q, v) => Canon::Attribute(q.clone(), f(v)),
        ANode::Namespace(p, u) => Canon::Namespace(p.clone(), u.clone()),
    }
}

/// comments and PIs below the node dropped
fn strip_xpath(n: &ANode) -> ANode {
    fn kids(c: &[ANode]) -> Vec<ANode> {
        c.iter()
            .filter(|c| !matches!(c, ANode::Comment(_) | ANode::PI(..)))
            .map(strip_xpath)
            .collect()
    }
    match n {
        ANode::Document(c) => ANode::Document(kids(c)),
        ANode::Element(e) => ANode::Element(AElem { children: kids(&e.children), ..e.clone() }),
        o => o.clone(),
    }
}

/// value of a node alone (for edge comparison / shallow equality)
fn shallow(n: &ANode, ci: bool, ignore: &[QName]) -> Canon {
    let f = |s: &str| if ci { loose(s) } else { s.to_string() };
    match n {
        ANode::Document(_) => Canon::Document(vec![]),
        ANode::Element(e) => {
            let mut a: Vec<(QName, String)> = e.attrs.iter().filter(|(q, _)| !ignore.contains(q)).map(|(q, v)| (q.clone(), f(v))).collect();
            a.sort();
            Canon::Element(e.name.clone(), a, vec![])
        }
        o => canon_ci(o, ci),
    }
}

#[derive(Clone, Copy, Debug, PartialEq)]
enum Filter {
    All,
    NoComments,
    NoPis,
    NoText,
    NoElementsNamedB,
    ElementsOnly,
}

fn keep(f: Filter, n: &ANode) -> bool {
    match f {
        Filter::All => true,
        Filter::NoComments => !matches!(n, ANode::Comment(_)),
        Filter::NoPis => !matches!(n, ANode::PI(..)),
        Filter::NoText => !matches!(n, ANode::Text(_)),
        Filter::NoElementsNamedB => !matches!(n, ANode::Element(e) if e.name.local == "b"),
        Filter::ElementsOnly => matches!(n, ANode::Element(_)),
    }
}

#[derive(PartialEq, Debug)]
enum Edge {
    S(Canon),
    E,
}

fn model_edges(n: &ANode, f: Filter, ci: bool, out: &mut Vec<Edge>) {
    let k = keep(f, n);
    if k {
        out.push(Edge::S(shallow(n, ci, &[])));
    }
    for c in n.children() {
        model_edges(c, f, ci, out);
    }
    if k {
        out.push(Edge::E);
    }
}

/// one semantic edit somewhere in the tree (may turn out to be a no-op; the oracle decides by canon)
fn edit(src: &mut Src, n: &mut ANode) -> &'static str {
    // collect paths
    fn paths(n: &ANode, p: &mut Vec<usize>, out: &mut Vec<Vec<usize>>) {
        out.push(p.clone());
        for (i, c) in n.children().iter().enumerate() {
            p.push(i);
            paths(c, p, out);
            p.pop();
        }
    }
    let mut ps = vec![];
    paths(n, &mut vec![], &mut ps);
    let path = ps[src.choice_big(ps.len())].clone();
    let mut cur: &mut ANode = n;
    for i in &path {
        cur = &mut cur.children_mut().unwrap()[*i];
    }
    match cur {
        ANode::Element(e) => match src.choice(9) {
            0 => {
                e.name.local.push('x');
                "element_local_name"
            }
            1 => {
                e.name.ns = if e.name.ns.is_empty() { "urn:other".into() } else { String::new() };
                "element_namespace"
            }
            2 => {
                if let Some(a) = e.attrs.first_mut() {
                    // '!' is a difference under every comparison; a space is one only under the exact and
                    // the case-insensitive comparison, not under "spaces ignored" (and it changes the length)
                    if src.bool() {
                        a.1.push(' ');
                        "attribute_value_space"
                    } else {
                        a.1.push('!');
                        "attribute_value"
                    }
                } else {
                    e.attrs.push((QName::new("", "extra"), "1".into()));
                    "extra_attribute"
                }
            }
            3 => {
                if e.attrs.iter().any(|(q, _)| q.ns.is_empty() && q.local == "extra") {
                    "noop"
                } else {
                    e.attrs.push((QName::new("", "extra"), "1".into()));
                    "extra_attribute"
                }
            }
            4 => {
                if e.attrs.pop().is_some() {
                    "missing_attribute"
                } else {
                    "noop"
                }
            }
            5 => {
                if e.children.len() >= 2 {
                    let i = src.choice_big(e.children.len() - 1);
                    e.children.swap(i, i + 1);
                    "child_order"
                } else {
                    "noop"
                }
            }
            6 => {
                if !e.children.is_empty() {
                    let i = src.choice_big(e.children.len());
                    e.children.remove(i);
                    "child_removed"
                } else {
                    e.children.push(ANode::Text("new".into()));
                    "child_added"
                }
            }
            7 => {
                if let Some(a) = e.attrs.first() {
                    let mut q = a.0.clone();
                    q.ns = if q.ns.is_empty() { "urn:other".into() } else { String::new() };
                    if e.attrs.iter().any(|(o, _)| *o == q) {
                        "noop" // would collide with an existing attribute name
                    } else {
                        e.attrs[0].0 = q;
                        "attribute_namespace"
                    }
                } else {
                    "noop"
                }
            }
            _ => {
                if let Some(a) = e.attrs.first_mut() {
                    a.1 = a.1.to_ascii_uppercase() + "Q";
                    a.1.pop();
                    "attribute_value_case"
                } else {
                    "noop"
                }
            }
        },
        ANode::Text(t) => match src.choice(3) {
            0 => {
                t.push('z');
                "text_char"
            }
            1 => {
                *t = t.to_ascii_uppercase();
                "text_case"
            }
            _ => {
                let s = t.clone();
                *cur = ANode::Comment(s.replace("--", "-"));
                "node_kind"
            }
        },
        ANode::Comment(t) => {
            t.push('z');
            "comment"
        }
        ANode::PI(t, d) => {
            if src.bool() {
                t.push('z');
                "pi_target"
            } else {
                *d = match d {
                    Some(s) => {
                        if src.bool() {
                            Some(format!("{}z", s))
                        } else {
                            None
                        }
                    }
                    None => Some("d".into()),
                };
                "pi_data"
            }
        }
        ANode::Document(c) => {
            if !c.is_empty() && src.bool() {
                c.pop();
                "child_removed"
            } else {
                c.push(ANode::Comment("added".into()));
                "child_added"
            }
        }
        _ => "noop",
    }
}

/// same content, different spelling: prefixes, declarations, attribute order
fn respell(src: &mut Src, n: &mut ANode) {
    if let ANode::Element(e) = n {
        if src.bool() {
            e.attrs.reverse();
        }
        match src.choice(4) {
            0 => e.decls.push(("zz".into(), "urn:extra".into())),
            1 => {
                e.decls.pop();
            }
            2 => {
                for d in e.decls.iter_mut() {
                    if !d.0.is_empty() {
                        d.0.push('9');
                    }
                }
            }
            _ => {}
        }
    }
    if let Some(ch) = n.children_mut() {
        for c in ch.iter_mut() {
            respell(src, c);
        }
    }
}

fn build(xot: &mut Xot, a: &ANode) -> Result<Node, String> {
    let mut hs = vec![];
    bridge::build(xot, a, &mut hs)
}

fn check_pair(xot: &mut Xot, a: &ANode, b: &ANode, na: Node, nb: Node, src: &mut Src) -> Result<(), String> {
    let show = || format!("A = {}  B = {}", a.show(), b.show());
    // deep_equal
    let want = canon(a) == canon(b);
    for (x, y, dir) in [(na, nb, "a,b"), (nb, na, "b,a")] {
        let got = guarded(|| xot.deep_equal(x, y)).map_err(|p| format!("deep_equal panicked: {} [{}]", p, show()))?;
        if got != want {
            return Err(format!("deep_equal({}) = {}, canonical forms are {} [{}]", dir, got, if want { "equal" } else { "different" }, show()));
        }
    }
    for (x, m) in [(na, a), (nb, b)] {
        if !xot.deep_equal(x, x) {
            return Err(format!("deep_equal is not reflexive on {}", m.show()));
        }
    }
    // deep_equal_xpath with two comparators
    for (ci, mode) in [(false, 1u8), (true, 1), (true, 2)] {
        LOOSE_MODE.with(|m| m.set(mode));
        let both_containers = matches!((a, b), (ANode::Element(_), ANode::Element(_)) | (ANode::Document(_), ANode::Document(_)));
        let want = if both_containers {
            canon_ci(&strip_xpath(a), ci) == canon_ci(&strip_xpath(b), ci)
        } else if std::mem::discriminant(a) != std::mem::discriminant(b) {
            false
        } else {
            shallow(a, ci, &[]) == shallow(b, ci, &[])
        };
        let got = guarded(|| {
            if ci {
                xot.deep_equal_xpath(na, nb, loose_eq)
            } else {
                xot.deep_equal_xpath(na, nb, |x, y| x == y)
            }
        })
        .map_err(|p| format!("deep_equal_xpath panicked: {} [{}]", p, show()))?;
        if got != want {
            return Err(format!("deep_equal_xpath({}) = {}, the model says {} [{}]", if !ci { "exact" } else if mode == 1 { "case-insensitive" } else { "spaces ignored" }, got, want, show()));
        }
    }
    LOOSE_MODE.with(|m| m.set(1));
    // advanced_deep_equal with a generated filter
    let filters = [Filter::All, Filter::NoComments, Filter::NoPis, Filter::NoText, Filter::NoElementsNamedB, Filter::ElementsOnly];
    let f = filters[src.choice(filters.len())];
    let ci = src.bool();
    // (drawn after ci) which loose comparison: ASCII case ignored, or spaces ignored
    let mode = if ci && src.bool() { 2 } else { 1 };
    LOOSE_MODE.with(|m| m.set(mode));
    if a.children().len() + b.children().len() > 0 || matches!(a, ANode::Element(_) | ANode::Document(_)) {
        let mut ea = vec![];
        let mut eb = vec![];
        model_edges(a, f, ci, &mut ea);
        model_edges(b, f, ci, &mut eb);
        // free-standing attribute / namespace nodes have no edges in any traversal; the statement treats them as nodes
        if !matches!(a, ANode::Attribute(..) | ANode::Namespace(..)) && !matches!(b, ANode::Attribute(..) | ANode::Namespace(..)) {
            let want = ea == eb;
            let xr: &Xot = xot;
            let flt = |n: Node| -> bool {
                match f {
                    Filter::All => true,
                    Filter::NoComments => !xr.is_comment(n),
                    Filter::NoPis => !xr.is_processing_instruction(n),
                    Filter::NoText => !xr.is_text(n),
                    Filter::NoElementsNamedB => !xr.element(n).map(|e| xr.local_name_str(e.name()) == "b").unwrap_or(false),
                    Filter::ElementsOnly => xr.is_element(n),
                }
            };
            let got = guarded(|| {
                if ci {
                    xr.advanced_deep_equal(na, nb, flt, loose_eq)
                } else {
                    xr.advanced_deep_equal(na, nb, flt, |x, y| x == y)
                }
            })
            .map_err(|p| format!("advanced_deep_equal panicked: {} [{}]", p, show()))?;
            if got != want {
                return Err(format!("advanced_deep_equal(filter {:?}, ci={}, mode={}) = {}, filtered edge sequences are {} [{}]", f, ci, mode, got, if want { "equal" } else { "different" }, show()));
            }
        }
    }
    LOOSE_MODE.with(|m| m.set(1));
    // deep_equal_children
    {
        let ca = a.children();
        let cb = b.children();
        let want = ca.len() == cb.len() && ca.iter().zip(cb.iter()).all(|(x, y)| canon(x) == canon(y));
        let got = guarded(|| xot.deep_equal_children(na, nb)).map_err(|p| format!("deep_equal_children panicked: {}", p))?;
        if got != want {
            return Err(format!("deep_equal_children = {}, the model says {} [{}]", got, want, show()));
        }
    }
    // shallow_equal and shallow_equal_ignore_attributes
    {
        let want = std::mem::discriminant(a) == std::mem::discriminant(b) && shallow(a, false, &[]) == shallow(b, false, &[]);
        let got = guarded(|| xot.shallow_equal(na, nb)).map_err(|p| format!("shallow_equal panicked: {}", p))?;
        if got != want {
            return Err(format!("shallow_equal = {}, the model says {} [{}]", got, want, show()));
        }
        // ignore list: present, absent and repeated names
        let mut pool: Vec<QName> = vec![QName::new("", "absent"), QName::new("", "a"), QName::new("", "extra"), QName::new(XML_NS, "lang")];
        for n in [a, b] {
            if let ANode::Element(e) = n {
                for (q, _) in &e.attrs {
                    pool.push(q.clone());
                }
            }
        }
        let k = src.choice(5);
        let mut ignore: Vec<QName> = vec![];
        for _ in 0..k {
            ignore.push(pool[src.choice_big(pool.len())].clone());
        }
        if src.bool() && !ignore.is_empty() {
            let d = ignore[0].clone();
            ignore.push(d); // a repeated name
        }
        let ids: Vec<NameId> = ignore.iter().map(|q| name_id(xot, q)).collect();
        let want = std::mem::discriminant(a) == std::mem::discriminant(b) && shallow(a, false, &ignore) == shallow(b, false, &ignore);
        let got = guarded(|| xot.shallow_equal_ignore_attributes(na, nb, &ids))
            .map_err(|p| format!("shallow_equal_ignore_attributes panicked: {} (ignore {:?}) [{}]", p, ignore.iter().map(|q| q.show()).collect::<Vec<_>>(), show()))?;
        if got != want {
            return Err(format!(
                "shallow_equal_ignore_attributes(ignore {:?}) = {}, the model says {} [{}]",
                ignore.iter().map(|q| q.show()).collect::<Vec<_>>(),
                got,
                want,
                show()
            ));
        }
    }
    // string_value
    for (x, m) in [(na, a), (nb, b)] {
        let got = xot.string_value(x);
        if got != m.string_value() {
            return Err(format!("string_value = {:?}, the model says {:?} for {}", got, m.string_value(), m.show()));
        }
    }
    let _ = qname_of;
    Ok(())
}

impl Property for C13 {
    fn id(&self) -> &'static str {
        "C13"
    }
    fn rule(&self) -> &'static str {
        "case = a tree A plus (variant respell) A' = A with other prefixes / extra, missing or renamed declarations / reversed attribute order, (variant edit) B = A with exactly one semantic edit (local name, namespace, attribute value / name / presence, text character or case, comment, PI target or data, child order, child removed or added, node kind), (variant unrelated) an independent tree, (variant nodes) two free-standing or embedded nodes of any of the 7 kinds, (small) all pairs of trees with <= 3 nodes. For every pair, in both directions: deep_equal == equality of canonical forms, reflexivity, transitivity on A/A'/B; deep_equal_xpath under == and under an ASCII-case-insensitive comparator == canonical equality after dropping comments/PIs below the compared nodes; advanced_deep_equal under a generated filter == equality of the model's filtered edge sequences; deep_equal_children; shallow_equal; shallow_equal_ignore_attributes with ignore lists holding present, absent and repeated names == comparison after deleting that SET of names; string_value. Non-trivial = pair differing in exactly one feature or a respelled pair with a namespace. Distinct by hash of the pair."
    }
    fn plans(&self, tier: Tier) -> Vec<Plan> {
        let mk = |name: &'static str, cases, variant| Plan {
            name,
            kind: PlanKind::Random { cases, max_len: 900 },
            knobs: Knobs { max_nodes: 16, variant, ..Default::default() },
        };
        let small = Plan {
            name: "small",
            kind: PlanKind::Enumerate { limit: 300_000 },
            knobs: Knobs { max_nodes: 3, small: true, ..Default::default() },
        };
        match tier {
            Tier::Quick => vec![mk("edit", 200_000, 0), mk("respell", 60_000, 1), mk("unrelated", 60_000, 2), mk("nodes", 60_000, 3), small],
            Tier::Thorough => vec![mk("edit", 1_000_000, 0), mk("respell", 300_000, 1), mk("unrelated", 300_000, 2), mk("nodes", 300_000, 3), small],
        }
    }

    fn check(&self, src: &mut Src, ctx: &mut Ctx) -> Verdict {
        let mut xot = Xot::new();
        xot.set_text_consolidation(false);
        let mut o = TreeOpts::xml(ctx.knobs.max_nodes);
        o.alpha = Alpha::NoCtl;
        o.attr_alpha = Alpha::NoCtl;
        o.scoping = Scoping::Free;
        o.raw_text = true;
        let gen_tree = |src: &mut Src| match src.weighted(&[5, 2, 2]) {
            0 => gen::gen_element_tree(src, &o),
            1 => gen::gen_document(src, &o),
            _ => gen::gen_fragment(src, &o),
        };
        let (a, b, label): (ANode, ANode, &'static str) = if ctx.knobs.small {
            (hist::gen_small_tree(src, 3), hist::gen_small_tree(src, 3), "small")
        } else {
            match ctx.knobs.variant {
                0 => {
                    let a = gen_tree(src);
                    let mut b = a.clone();
                    let l = edit(src, &mut b);
                    (a, b, l)
                }
                1 => {
                    let a = gen_tree(src);
                    let mut b = a.clone();
                    respell(src, &mut b);
                    (a, b, "respelled")
                }
                2 => (gen_tree(src), gen_tree(src), "unrelated"),
                _ => {
                    let node = |src: &mut Src| -> ANode {
                        let q = QName::new(["", "urn:a"][src.choice(2)], ["a", "b"][src.choice(2)]);
                        match src.choice(7) {
                            0 => ANode::Attribute(q, ["v", "V", "w"][src.choice(3)].into()),
                            1 => ANode::Namespace(["", "p"][src.choice(2)].into(), ["urn:a", "urn:b"][src.choice(2)].into()),
                            2 => ANode::Text(["v", "V", ""][src.choice(3)].into()),
                            3 => ANode::Comment(["v", "V"][src.choice(2)].into()),
                            4 => ANode::PI(["v", "t"][src.choice(2)].into(), [None, Some("v".to_string()), Some("V".to_string())][src.choice(3)].clone()),
                            5 => ANode::Document(vec![]),
                            _ => ANode::Element(AElem { name: q, ..Default::default() }),
                        }
                    };
                    (node(src), node(src), "nodes")
                }
            }
        };
        ctx.label(label);
        ctx.fingerprint(&(a.clone(), b.clone()));
        ctx.rendering(|| format!("A = {}  B = {}", a.show(), b.show()));
        ctx.nontrivial = match label {
            "noop" | "unrelated" => false,
            "respelled" => crate::props::common::has_decls(&a),
            "small" | "nodes" => true,
            _ => true,
        };
        let na = match build(&mut xot, &a) {
            Ok(n) => n,
            Err(e) => return Verdict::Fail(format!("harness: {}", e)),
        };
        let nb = match build(&mut xot, &b) {
            Ok(n) => n,
            Err(e) => return Verdict::Fail(format!("harness: {}", e)),
        };
        if let Err(e) = check_pair(&mut xot, &a, &b, na, nb, src) {
            return Verdict::Fail(e);
        }
        // transitivity on a triple A, A', B'
        if ctx.knobs.variant == 1 && !ctx.knobs.small {
            let mut c = b.clone();
            respell(src, &mut c);
            let nc = match build(&mut xot, &c) {
                Ok(n) => n,
                Err(e) => return Verdict::Fail(format!("harness: {}", e)),
            };
            let ab = xot.deep_equal(na, nb);
            let bc = xot.deep_equal(nb, nc);
            let ac = xot.deep_equal(na, nc);
            if ab && bc && !ac {
                return Verdict::Fail(format!("deep_equal is not transitive on {} / {} / {}", a.show(), b.show(), c.show()));
            }
        }
        // embedded attribute / namespace nodes compared as nodes
        if let (ANode::Element(ea), ANode::Element(eb)) = (&a, &b) {
            if let (Some((qa, va)), Some((qb, vb))) = (ea.attrs.first(), eb.attrs.first()) {
                let ia = name_id(&mut xot, qa);
                let ib = name_id(&mut xot, qb);
                if let (Some(x), Some(y)) = (xot.attributes(na).get_node(ia), xot.attributes(nb).get_node(ib)) {
                    let ma = ANode::Attribute(qa.clone(), va.clone());
                    let mb = ANode::Attribute(qb.clone(), vb.clone());
                    if let Err(e) = check_pair(&mut xot, &ma, &mb, x, y, src) {
                        return Verdict::Fail(format!("on embedded attribute nodes: {}", e));
                    }
                }
            }
        }
        Verdict::Pass
    }
}
