//! C16 — token and output-event streams reproduce the string serialisation.

use xot::output::xml::Parameters;
use xot::output::{Indentation, NoopNormalizer, Output, TokenSerializeParameters};
use xot::{NameId, Node, Xot};

use crate::bridge::{self, bounded, name_id, qname_of};
use crate::engine::runner::guarded;
use crate::engine::{Ctx, Knobs, Plan, PlanKind, Property, Src, Tier, Verdict};
use crate::gen::{self, Alpha, TreeOpts};
use crate::model::scope::{self, Scope};
use crate::model::{ANode, QName, XML_NS};
use crate::props::c14::element_names;

pub struct C16;

/// a writer that accepts at most `max` bytes per `write` call (a legal `io::Write`):
/// code that calls `write` where it needs `write_all` loses bytes here
struct Dribble {
    out: Vec<u8>,
    max: usize,
}

impl std::io::Write for Dribble {
    fn write(&mut self, buf: &[u8]) -> std::io::Result<usize> {
        let n = buf.len().min(self.max);
        self.out.extend_from_slice(&buf[..n]);
        Ok(n)
    }
    fn flush(&mut self) -> std::io::Result<()> {
        Ok(())
    }
}

/// all containers (document / elements) of the model as child-index paths
fn container_paths(a: &ANode, path: &mut Vec<usize>, out: &mut Vec<Vec<usize>>) {
    if matches!(a, ANode::Document(_) | ANode::Element(_)) {
        out.push(path.clone());
    }
    for (i, c) in a.children().iter().enumerate() {
        path.push(i);
        container_paths(c, path, out);
        path.pop();
    }
}

#[derive(Debug, Clone, PartialEq)]
enum Ev {
    Open(QName),
    Prefix(String, String),
    Attr(QName, String),
    Close,
    End(QName),
    Text(String),
    Comment(String),
    PI(String, Option<String>),
}

fn expected_events(xot: &Xot, n: Node, a: &ANode, out: &mut Vec<(Node, Ev)>) -> Result<(), String> {
    let kids: Vec<Node> = bounded(xot.children(n), 100_000, "children")?;
    if kids.len() != a.children().len() {
        return Err("harness: tree and model differ".into());
    }
    match a {
        ANode::Document(ch) => {
            for (k, c) in kids.iter().zip(ch.iter()) {
                expected_events(xot, *k, c, out)?;
            }
        }
        ANode::Element(e) => {
            out.push((n, Ev::Open(e.name.clone())));
            for (p, u) in &e.decls {
                out.push((n, Ev::Prefix(p.clone(), u.clone())));
            }
            for (q, v) in &e.attrs {
                out.push((n, Ev::Attr(q.clone(), v.clone())));
            }
            out.push((n, Ev::Close));
            for (k, c) in kids.iter().zip(e.children.iter()) {
                expected_events(xot, *k, c, out)?;
            }
            out.push((n, Ev::End(e.name.clone())));
        }
        ANode::Text(t) => out.push((n, Ev::Text(t.clone()))),
        ANode::Comment(t) => out.push((n, Ev::Comment(t.clone()))),
        ANode::PI(t, d) => out.push((n, Ev::PI(t.clone(), d.clone()))),
        _ => return Err("harness: unexpected node".into()),
    }
    Ok(())
}

fn collect_elements(xot: &Xot, n: Node, a: &ANode, sc: &Scope, out: &mut Vec<(Node, ANode, Scope)>) {
    let kids: Vec<Node> = xot.children(n).take(100_000).collect();
    let inner = match a {
        ANode::Element(e) => {
            out.push((n, a.clone(), sc.clone()));
            scope::push(sc, &e.decls)
        }
        _ => sc.clone(),
    };
    for (k, c) in kids.iter().zip(a.children().iter()) {
        collect_elements(xot, *k, c, &inner, out);
    }
}

impl Property for C16 {
    fn id(&self) -> &'static str {
        "C16"
    }
    fn rule(&self) -> &'static str {
        "case = well-scoped tree, a start node (the root or any element of it) and token parameters (subset of element names as CDATA-section elements, unescaped_gt, suppress list). Checked: concatenation of tokens() (one space before a token when flagged) == serialize_xml_string with the same parameters, byte for byte; pretty_tokens() assembled from indentation/space/text/newline == the indented string; outputs() == the event list generated from the reference tree (per element StartTagOpen, Prefix*, Attribute*, StartTagClose, children, EndTag; text/comment/PI events), every event tagged with the right node, extra Prefix events on the top element accepted only for inherited in-scope bindings; write / serialize_xml_write (plain and indented) / Html5::write produce the same bytes as the string entry points, both into a Vec and into a writer that accepts only 1..7 bytes per write call. Up to three EMPTY text nodes (API-only) are inserted at generated places: they owe a Text event. Non-trivial = some element with both declarations and attributes and at least one non-default parameter. Distinct by hash of (tree, start path, parameters)."
    }
    fn plans(&self, tier: Tier) -> Vec<Plan> {
        let mk = |name: &'static str, cases| Plan {
            name,
            kind: PlanKind::Random { cases, max_len: 1200 },
            knobs: Knobs { max_nodes: 30, ..Default::default() },
        };
        match tier {
            Tier::Quick => vec![mk("streams", 250_000)],
            Tier::Thorough => vec![mk("streams", 2_500_000)],
        }
    }

    fn check(&self, src: &mut Src, ctx: &mut Ctx) -> Verdict {
        let mut o = TreeOpts::xml(ctx.knobs.max_nodes);
        o.alpha = if src.bool() { Alpha::Brackets } else { Alpha::Full };
        // explicit xmlns:xml declarations: a namespace node like any other, it has its Prefix event
        o.xml_prefix_decls = true;
        let doc = match src.weighted(&[4, 3, 2]) {
            0 => gen::gen_document(src, &o),
            1 => gen::gen_element_tree(src, &o),
            _ => gen::gen_fragment(src, &o),
        };
        let mut xot = Xot::new();
        let mut hs = vec![];
        let mut doc = doc;
        if src.ratio(1, 16) {
            // one very long token (text, comment or attribute value): larger than any reasonable write buffer
            let long: String = std::iter::repeat("abcdefghij").take(450 + 2 * src.choice(200)).collect();
            fn first_leaf(n: &mut ANode, long: &str, which: usize) -> bool {
                match n {
                    ANode::Text(t) if which == 0 => {
                        t.push_str(long);
                        true
                    }
                    ANode::Comment(t) if which == 1 => {
                        t.push_str(long);
                        true
                    }
                    ANode::Element(e) if which == 2 && !e.attrs.is_empty() => {
                        e.attrs[0].1.push_str(long);
                        true
                    }
                    _ => {
                        if let Some(ch) = n.children_mut() {
                            for c in ch.iter_mut() {
                                if first_leaf(c, long, which) {
                                    return true;
                                }
                            }
                        }
                        false
                    }
                }
            }
            let which = src.choice(3);
            if first_leaf(&mut doc, &long, which) {
                ctx.label("very_long_token");
            }
        }
        if src.ratio(1, 12) {
            // a deep chain of element-only wrappers around the (first) element: indentation levels
            // well beyond anything a fixed-size buffer or a small counter would hold
            let depth = 17 + src.choice(30);
            fn wrap_first_element(n: &mut ANode, depth: usize) -> bool {
                if let ANode::Element(_) = n {
                    let mut inner = std::mem::replace(n, ANode::Text(String::new()));
                    for _ in 0..depth {
                        inner = ANode::Element(crate::model::AElem { name: QName::new("", "w"), decls: vec![], attrs: vec![], children: vec![inner] });
                    }
                    *n = inner;
                    return true;
                }
                if let Some(ch) = n.children_mut() {
                    for c in ch.iter_mut() {
                        if wrap_first_element(c, depth) {
                            return true;
                        }
                    }
                }
                false
            }
            if wrap_first_element(&mut doc, depth) {
                ctx.label("deep_chain");
            }
        }
        if src.ratio(1, 4) {
            // API-only layout: no-namespace elements below a default namespace without xmlns=""
            // (the serializer writes one on the fly: strings, tokens and events must still agree)
            gen::strip_undeclarations(&mut doc, src);
            ctx.label("stripped_undeclarations");
        }
        let root = match bridge::build(&mut xot, &doc, &mut hs) {
            Ok(r) => r,
            Err(e) => return Verdict::Fail(format!("harness: {}", e)),
        };
        // empty text nodes (only the API can make them): they have no spelling but are nodes,
        // so the event stream owes them a Text event
        let mut empties = 0;
        while empties < 3 && src.ratio(1, 3) {
            let mut paths = vec![];
            container_paths(&doc, &mut vec![], &mut paths);
            let path = paths[src.choice_big(paths.len())].clone();
            let mut m = &mut doc;
            let mut x = root;
            for i in &path {
                x = match xot.children(x).nth(*i) {
                    Some(c) => c,
                    None => return Verdict::Fail("harness: path".into()),
                };
                m = &mut m.children_mut().unwrap()[*i];
            }
            let ch = m.children_mut().unwrap();
            let at = src.choice(ch.len() + 1);
            let text_beside = (at > 0 && ch[at - 1].is_text()) || (at < ch.len() && ch[at].is_text());
            if text_beside {
                continue; // consolidation would merge it away
            }
            // an empty text node, or (API-only as well) a processing instruction whose data is Some("")
            let as_pi = src.ratio(1, 3);
            let t = if as_pi {
                let id = xot.add_name("pi");
                xot.new_processing_instruction(id, Some(""))
            } else {
                xot.new_text("")
            };
            let r = if at == ch.len() {
                xot.append(x, t)
            } else {
                let before = xot.children(x).nth(at).unwrap();
                xot.insert_before(before, t)
            };
            if let Err(e) = r {
                return Verdict::Fail(format!("harness: inserting an empty text node / PI: {}", e));
            }
            ch.insert(at, if as_pi { ANode::PI("pi".into(), Some(String::new())) } else { ANode::Text(String::new()) });
            empties += 1;
        }
        if empties > 0 {
            ctx.label("empty_text_node");
        }
        // adjacent text nodes, as work done while text consolidation was off leaves them: "]]" ends one node
        // and ">" starts the next (the string route and the token route must escape the same way)
        if src.ratio(1, 10) {
            let mut paths = vec![];
            container_paths(&doc, &mut vec![], &mut paths);
            let path = paths[src.choice_big(paths.len())].clone();
            let mut m = &mut doc;
            let mut x = root;
            for i in &path {
                x = match xot.children(x).nth(*i) {
                    Some(c) => c,
                    None => return Verdict::Fail("harness: path".into()),
                };
                m = &mut m.children_mut().unwrap()[*i];
            }
            if matches!(m, ANode::Element(_)) {
                let ch = m.children_mut().unwrap();
                let (a, b) = [("x]]", ">y"), ("]", "]>"), ("a", "b"), ("]]", ">")][src.choice(4)];
                xot.set_text_consolidation(false);
                let r1 = xot.append_text(x, a);
                let r2 = xot.append_text(x, b);
                xot.set_text_consolidation(true);
                if r1.is_err() || r2.is_err() {
                    return Verdict::Fail("harness: appending adjacent text nodes".into());
                }
                ch.push(ANode::Text(a.to_string()));
                ch.push(ANode::Text(b.to_string()));
                ctx.label("adjacent_text_nodes");
            }
        }
        // start node
        let mut els = vec![];
        collect_elements(&xot, root, &doc, &scope::base_scope(), &mut els);
        let (start, start_model, start_scope): (Node, ANode, Scope) = if els.is_empty() || src.ratio(1, 2) {
            (root, doc.clone(), scope::base_scope())
        } else {
            els[src.choice_big(els.len())].clone()
        };
        let sub = start != root;
        let mut names = vec![];
        element_names(&doc, &mut names);
        names.push(QName::new("", "absent"));
        let pick = |src: &mut Src| -> Vec<QName> {
            if src.bool() {
                vec![]
            } else {
                names.iter().filter(|_| src.ratio(1, 3)).cloned().collect()
            }
        };
        let cdata_q = pick(src);
        let suppress_q = pick(src);
        let unescaped_gt = src.bool();
        let chunk = 1 + src.choice(7);
        let cdata: Vec<NameId> = cdata_q.iter().map(|q| name_id(&mut xot, q)).collect();
        let suppress: Vec<NameId> = suppress_q.iter().map(|q| name_id(&mut xot, q)).collect();
        ctx.fingerprint(&(doc.clone(), sub, format!("{:?}{:?}{}", cdata_q, suppress_q, unescaped_gt)));
        ctx.rendering(|| format!("{} start={} cdata={:?} suppress={:?} gt={}", doc.show(), start_model.show(), cdata_q.len(), suppress_q.len(), unescaped_gt));
        fn both(n: &ANode) -> bool {
            matches!(n, ANode::Element(e) if !e.decls.is_empty() && !e.attrs.is_empty()) || n.children().iter().any(both)
        }
        ctx.nontrivial = both(&start_model) && (!cdata_q.is_empty() || !suppress_q.is_empty() || unescaped_gt);
        if sub {
            ctx.label("sub_element_start");
        }
        let r: Result<(), String> = (|| {
            let tsp = || TokenSerializeParameters { cdata_section_elements: cdata.clone(), unescaped_gt };
            // string serialisations
            let plain = guarded(|| {
                xot.serialize_xml_string(Parameters { cdata_section_elements: cdata.clone(), unescaped_gt, ..Default::default() }, start)
            })
            .map_err(|p| format!("serialize_xml_string panicked: {}", p))?;
            let plain = match plain {
                Ok(s) => s,
                Err(_) => {
                    ctx.label("not_serialisable");
                    return Ok(());
                }
            };
            let pretty = guarded(|| {
                xot.serialize_xml_string(
                    Parameters { cdata_section_elements: cdata.clone(), unescaped_gt, indentation: Some(Indentation { suppress: suppress.clone() }), ..Default::default() },
                    start,
                )
            })
            .map_err(|p| format!("serialize_xml_string(indent) panicked: {}", p))?
            .map_err(|e| format!("indented serialisation fails although the plain one works: {}", e))?;
            // tokens
            let toks = guarded(|| bounded(xot.tokens(start, tsp(), NoopNormalizer), 1_000_000, "tokens"))
                .map_err(|p| format!("tokens() panicked: {}", p))??;
            let mut cat = String::new();
            for (_, _, t) in &toks {
                if t.space {
                    cat.push(' ');
                }
                cat.push_str(&t.text);
            }
            if cat != plain {
                return Err(format!("tokens() concatenate to {:?}, serialize_xml_string gives {:?}", cat, plain));
            }
            let ptoks = guarded(|| bounded(xot.pretty_tokens(start, tsp(), &suppress, NoopNormalizer), 1_000_000, "pretty_tokens"))
                .map_err(|p| format!("pretty_tokens() panicked: {}", p))??;
            let mut cat = String::new();
            for (_, _, t) in &ptoks {
                for _ in 0..t.indentation {
                    cat.push_str("  ");
                }
                if t.space {
                    cat.push(' ');
                }
                cat.push_str(&t.text);
                if t.newline {
                    cat.push('\n');
                }
            }
            if cat != pretty {
                return Err(format!("pretty_tokens() assemble to {:?}, the indented string is {:?}", cat, pretty));
            }
            // Write-based entry points
            let mut buf: Vec<u8> = vec![];
            xot.serialize_xml_write(Parameters { cdata_section_elements: cdata.clone(), unescaped_gt, ..Default::default() }, start, &mut buf)
                .map_err(|e| format!("serialize_xml_write failed: {}", e))?;
            if buf != plain.as_bytes() {
                return Err("serialize_xml_write emits other bytes than serialize_xml_string".into());
            }
            let mut w = Dribble { out: vec![], max: chunk };
            xot.serialize_xml_write(Parameters { cdata_section_elements: cdata.clone(), unescaped_gt, ..Default::default() }, start, &mut w)
                .map_err(|e| format!("serialize_xml_write failed on a writer that takes {} bytes per call: {}", chunk, e))?;
            if w.out != plain.as_bytes() {
                return Err(format!(
                    "serialize_xml_write into a writer that accepts {} bytes per write call emits {:?}, the string is {:?}",
                    chunk,
                    String::from_utf8_lossy(&w.out),
                    plain
                ));
            }
            let mut w = Dribble { out: vec![], max: chunk };
            xot.serialize_xml_write(
                Parameters { cdata_section_elements: cdata.clone(), unescaped_gt, indentation: Some(Indentation { suppress: suppress.clone() }), ..Default::default() },
                start,
                &mut w,
            )
            .map_err(|e| format!("serialize_xml_write(indent) failed on a writer that takes {} bytes per call: {}", chunk, e))?;
            if w.out != pretty.as_bytes() {
                return Err(format!(
                    "serialize_xml_write(indent) into a writer that accepts {} bytes per write call emits {:?}, the string is {:?}",
                    chunk,
                    String::from_utf8_lossy(&w.out),
                    pretty
                ));
            }
            let dflt = xot.to_string(start).map_err(|e| e.to_string())?;
            let mut buf: Vec<u8> = vec![];
            xot.write(start, &mut buf).map_err(|e| format!("write failed: {}", e))?;
            if buf != dflt.as_bytes() {
                return Err("write() emits other bytes than to_string()".into());
            }
            let mut w = Dribble { out: vec![], max: chunk };
            xot.write(start, &mut w).map_err(|e| format!("write failed on a writer that takes {} bytes per call: {}", chunk, e))?;
            if w.out != dflt.as_bytes() {
                return Err(format!("write() into a writer that accepts {} bytes per write call emits {:?}, to_string gives {:?}", chunk, String::from_utf8_lossy(&w.out), dflt));
            }
            // outputs()
            let outs = guarded(|| bounded(xot.outputs(start), 1_000_000, "outputs")).map_err(|p| format!("outputs() panicked: {}", p))??;
            let got: Vec<(Node, Ev)> = outs
                .iter()
                .map(|(n, o)| {
                    (
                        *n,
                        match o {
                            Output::StartTagOpen(e) => Ev::Open(qname_of(&xot, e.name())),
                            Output::StartTagClose => Ev::Close,
                            Output::EndTag(e) => Ev::End(qname_of(&xot, e.name())),
                            Output::Prefix(p, u) => Ev::Prefix(xot.prefix_str(*p).to_string(), xot.namespace_str(*u).to_string()),
                            Output::Attribute(k, v) => Ev::Attr(qname_of(&xot, *k), v.to_string()),
                            Output::Text(t) => Ev::Text(t.to_string()),
                            Output::Comment(t) => Ev::Comment(t.to_string()),
                            Output::ProcessingInstruction(t, d) => Ev::PI(qname_of(&xot, *t).local, d.map(|s| s.to_string())),
                        },
                    )
                })
                .collect();
            let mut want = vec![];
            expected_events(&xot, start, &start_model, &mut want)?;
            // align: extra Prefix events right after the first Open are inherited bindings
            let mut gi = 0;
            let mut wi = 0;
            let own: Vec<String> = match &start_model {
                ANode::Element(e) => e.decls.iter().map(|d| d.0.clone()).collect(),
                _ => vec![],
            };
            while gi < got.len() || wi < want.len() {
                if gi < got.len() && wi < want.len() && got[gi] == want[wi] {
                    gi += 1;
                    wi += 1;
                    continue;
                }
                if gi < got.len() && wi >= 1 && wi < want.len() + 1 {
                    if let (n, Ev::Prefix(p, u)) = &got[gi] {
                        // allowed only on the top element, before its own declarations and attributes
                        let in_top_tag = *n == start && matches!(start_model, ANode::Element(_)) && want[..wi].iter().all(|(_, e)| matches!(e, Ev::Open(_)));
                        let inherited = (p == "xml" && u == XML_NS) || start_scope.get(p) == Some(u);
                        if in_top_tag && inherited && !own.contains(p) {
                            gi += 1;
                            continue;
                        }
                    }
                }
                return Err(format!(
                    "outputs() event #{} is {:?}, the reference event list has {:?} there",
                    gi,
                    got.get(gi).map(|x| &x.1),
                    want.get(wi).map(|x| &x.1)
                ));
            }
            // html5 write == html5 string
            let h = xot.html5();
            match guarded(|| h.to_string(start)) {
                Ok(Ok(hs)) => {
                    let mut buf: Vec<u8> = vec![];
                    h.write(start, &mut buf).map_err(|e| format!("Html5::write failed where to_string succeeded: {}", e))?;
                    if buf != hs.as_bytes() {
                        return Err("Html5::write emits other bytes than Html5::to_string".into());
                    }
                    let mut w = Dribble { out: vec![], max: chunk };
                    h.write(start, &mut w).map_err(|e| format!("Html5::write failed on a writer that takes {} bytes per call: {}", chunk, e))?;
                    if w.out != hs.as_bytes() {
                        return Err(format!("Html5::write into a writer that accepts {} bytes per write call emits {:?}, to_string gives {:?}", chunk, String::from_utf8_lossy(&w.out), hs));
                    }
                }
                _ => {}
            }
            // the parameterised HTML5 entry points and the *_with_normalizer twins (Noop normalizer)
            let hp = || xot::output::html5::Parameters {
                indentation: if unescaped_gt { Some(Indentation { suppress: suppress.clone() }) } else { None },
                cdata_section_elements: cdata.clone(),
            };
            if let Ok(Ok(hs)) = guarded(|| h.serialize_string(hp(), start)) {
                let mut w = Dribble { out: vec![], max: chunk };
                h.serialize_write(hp(), start, &mut w).map_err(|e| format!("Html5::serialize_write failed where serialize_string succeeded: {}", e))?;
                if w.out != hs.as_bytes() {
                    return Err(format!("Html5::serialize_write emits {:?}, serialize_string gives {:?}", String::from_utf8_lossy(&w.out), hs));
                }
                let hn = h.serialize_string_with_normalizer(hp(), start, NoopNormalizer).map_err(|e| format!("Html5::serialize_string_with_normalizer failed: {}", e))?;
                if hn != hs {
                    return Err("Html5::serialize_string_with_normalizer(Noop) differs from serialize_string".into());
                }
            }
            let xn = xot
                .serialize_xml_string_with_normalizer(Parameters { cdata_section_elements: cdata.clone(), unescaped_gt, ..Default::default() }, start, NoopNormalizer)
                .map_err(|e| format!("serialize_xml_string_with_normalizer failed: {}", e))?;
            if xn != plain {
                return Err("serialize_xml_string_with_normalizer(Noop) differs from serialize_xml_string".into());
            }
            let mut w = Dribble { out: vec![], max: chunk };
            xot.serialize_xml_write_with_normalizer(Parameters { cdata_section_elements: cdata.clone(), unescaped_gt, ..Default::default() }, start, &mut w, NoopNormalizer)
                .map_err(|e| format!("serialize_xml_write_with_normalizer failed: {}", e))?;
            if w.out != plain.as_bytes() {
                return Err("serialize_xml_write_with_normalizer(Noop) emits other bytes than serialize_xml_string".into());
            }
            // (late draws) a leaf as the subtree: one text, comment or PI node below the start node; every
            // entry point must produce the same bytes for it (a text below an element of the CDATA list
            // included) and outputs() exactly one event, tagged with that node
            let leaves: Vec<Node> = bounded(xot.descendants(start), 100_000, "descendants")?
                .into_iter()
                .filter(|n| *n != start && (xot.is_text(*n) || xot.is_comment(*n) || xot.is_processing_instruction(*n)))
                .collect();
            if !leaves.is_empty() {
                let leaf = leaves[src.choice_big(leaves.len())];
                let under_cdata = xot.parent(leaf).and_then(|p| xot.element(p)).map(|e| cdata.contains(&e.name())).unwrap_or(false);
                if xot.is_text(leaf) && under_cdata {
                    ctx.label("text_leaf_below_cdata_element_as_start");
                }
                let params = || Parameters { cdata_section_elements: cdata.clone(), unescaped_gt, ..Default::default() };
                let ls = match guarded(|| xot.serialize_xml_string(params(), leaf)).map_err(|p| format!("serialize_xml_string(leaf) panicked: {}", p))? {
                    Ok(s) => s,
                    Err(_) => return Ok(()),
                };
                let ltoks = guarded(|| bounded(xot.tokens(leaf, tsp(), NoopNormalizer), 1_000_000, "tokens")).map_err(|p| format!("tokens(leaf) panicked: {}", p))??;
                let mut cat = String::new();
                for (_, _, t) in &ltoks {
                    if t.space {
                        cat.push(' ');
                    }
                    cat.push_str(&t.text);
                }
                if cat != ls {
                    return Err(format!("leaf as subtree: tokens() concatenate to {:?}, serialize_xml_string gives {:?}", cat, ls));
                }
                let lptoks = guarded(|| bounded(xot.pretty_tokens(leaf, tsp(), &suppress, NoopNormalizer), 1_000_000, "pretty_tokens")).map_err(|p| format!("pretty_tokens(leaf) panicked: {}", p))??;
                let lpretty = xot
                    .serialize_xml_string(Parameters { indentation: Some(Indentation { suppress: suppress.clone() }), ..params() }, leaf)
                    .map_err(|e| format!("leaf as subtree: indented serialisation fails although the plain one works: {}", e))?;
                let mut cat = String::new();
                for (_, _, t) in &lptoks {
                    for _ in 0..t.indentation {
                        cat.push_str("  ");
                    }
                    if t.space {
                        cat.push(' ');
                    }
                    cat.push_str(&t.text);
                    if t.newline {
                        cat.push('\n');
                    }
                }
                if cat != lpretty {
                    return Err(format!("leaf as subtree: pretty_tokens() assemble to {:?}, the indented string is {:?}", cat, lpretty));
                }
                let mut w = Dribble { out: vec![], max: chunk };
                xot.serialize_xml_write(params(), leaf, &mut w).map_err(|e| format!("serialize_xml_write(leaf) failed: {}", e))?;
                if w.out != ls.as_bytes() {
                    return Err(format!("leaf as subtree: serialize_xml_write emits {:?}, serialize_xml_string gives {:?}", String::from_utf8_lossy(&w.out), ls));
                }
                let ln = xot.serialize_xml_string_with_normalizer(params(), leaf, NoopNormalizer).map_err(|e| format!("serialize_xml_string_with_normalizer(leaf) failed: {}", e))?;
                if ln != ls {
                    return Err(format!("leaf as subtree: serialize_xml_string_with_normalizer gives {:?}, serialize_xml_string {:?}", ln, ls));
                }
                let mut w = Dribble { out: vec![], max: chunk };
                xot.serialize_xml_write_with_normalizer(params(), leaf, &mut w, NoopNormalizer).map_err(|e| format!("serialize_xml_write_with_normalizer(leaf) failed: {}", e))?;
                if w.out != ls.as_bytes() {
                    return Err(format!("leaf as subtree: serialize_xml_write_with_normalizer emits {:?}, serialize_xml_string gives {:?}", String::from_utf8_lossy(&w.out), ls));
                }
                let louts = guarded(|| bounded(xot.outputs(leaf), 1_000, "outputs")).map_err(|p| format!("outputs(leaf) panicked: {}", p))??;
                let ok = louts.len() == 1
                    && louts[0].0 == leaf
                    && match &louts[0].1 {
                        Output::Text(t) => xot.text_str(leaf) == Some(*t),
                        Output::Comment(t) => xot.comment_str(leaf) == Some(*t),
                        Output::ProcessingInstruction(..) => xot.is_processing_instruction(leaf),
                        _ => false,
                    };
                if !ok {
                    return Err(format!("leaf as subtree: outputs() gives {} events, expected exactly the one of the leaf, tagged with it", louts.len()));
                }
            }
            Ok(())
        })();
        match r {
            Ok(()) => Verdict::Pass,
            Err(e) => Verdict::Fail(e),
        }
    }
}
