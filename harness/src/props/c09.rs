//! C09 — namespace scope queries agree with nearest-declaration-wins scoping.

use std::collections::{BTreeMap, BTreeSet};

use xot::xmlname::NameStrInfo;
use xot::{NamespaceId, Node, PrefixId, Xot};

use crate::bridge::{self, bounded, name_id};
use crate::engine::runner::guarded;
use crate::engine::{Ctx, Knobs, Plan, PlanKind, Property, Src, Tier, Verdict};
use crate::gen::{self, Alpha, Scoping, TreeOpts, PREFIXES, URIS_XML};
use crate::model::scope::{self, Scope};
use crate::model::{ANode, QName, XML_NS};

pub struct C09;

struct Cx<'a> {
    xot: &'a mut Xot,
    prefixes: Vec<(String, PrefixId)>,
    namespaces: Vec<(String, NamespaceId)>,
    shadow_seen: bool,
    deep_decl_seen: bool,
    checked: u64,
    /// known finding: a no-namespace element name under a default namespace has no correct spelling
    skip_no_ns_under_default: bool,
    skipped: usize,
    suspect: bool,
}

/// namespaces used by names in the subtree, and those used where no declaration inside the subtree binds them
/// namespaces used by a name at which no NON-EMPTY prefix declared inside the subtree binds
/// them (only such a namespace can possibly be "unresolved"; under any reading a namespace
/// whose every use has a prefixed binding inside the subtree is resolved)
fn not_prefixed_everywhere(n: &ANode, inner: &Scope, out: &mut BTreeSet<String>) {
    if let ANode::Element(e) = n {
        let sc = scope::push(inner, &e.decls);
        let mut names = vec![&e.name];
        for (q, _) in &e.attrs {
            names.push(q);
        }
        for q in names {
            if !q.ns.is_empty() && !sc.iter().any(|(p, u)| !p.is_empty() && *u == q.ns) {
                out.insert(q.ns.clone());
            }
        }
        for c in &e.children {
            not_prefixed_everywhere(c, &sc, out);
        }
    } else {
        for c in n.children() {
            not_prefixed_everywhere(c, inner, out);
        }
    }
}

fn used(n: &ANode, inner: &Scope, all: &mut BTreeSet<String>, unbound: &mut BTreeSet<String>) {
    if let ANode::Element(e) = n {
        let sc = {
            let mut s = inner.clone();
            for (p, u) in &e.decls {
                if p.is_empty() && u.is_empty() {
                    s.remove("");
                } else {
                    s.insert(p.clone(), u.clone());
                }
            }
            s
        };
        let mut names = vec![&e.name];
        for (q, _) in &e.attrs {
            names.push(q);
        }
        for (k, q) in names.into_iter().enumerate() {
            all.insert(q.ns.clone());
            if !q.ns.is_empty() && q.ns != XML_NS && !sc.values().any(|u| *u == q.ns) {
                unbound.insert(q.ns.clone());
            }
            // an attribute name (k > 0) needs a NON-EMPTY prefix: a default declaration does not resolve it
            if k > 0 && !q.ns.is_empty() && q.ns != XML_NS && !sc.iter().any(|(p, u)| !p.is_empty() && *u == q.ns) {
                unbound.insert(q.ns.clone());
            }
        }
        for c in &e.children {
            used(c, &sc, all, unbound);
        }
    } else {
        for c in n.children() {
            used(c, inner, all, unbound);
        }
    }
}

fn check_node(cx: &mut Cx, node: Node, model: &ANode, sc: &Scope, parent_scope: &Scope, depth_decls: usize, is_attr_named: Option<&QName>) -> Result<(), String> {
    cx.checked += 1;
    let here = || format!("at {}", model.show());
    // namespaces_in_scope
    let xot: &Xot = &*cx.xot;
    let got = bounded(xot.namespaces_in_scope(node), 10_000, "namespaces_in_scope")?;
    let mut seen = BTreeMap::new();
    for (p, u) in &got {
        let ps = xot.prefix_str(*p).to_string();
        if seen.insert(ps.clone(), xot.namespace_str(*u).to_string()).is_some() {
            return Err(format!("namespaces_in_scope reports prefix {:?} twice {}", ps, here()));
        }
    }
    let want: BTreeMap<String, String> = sc.clone();
    if seen != want {
        return Err(format!("namespaces_in_scope = {:?}, nearest-declaration-wins scoping gives {:?} {}", seen, want, here()));
    }
    // namespace_for_prefix for every prefix known to the Xot
    for (ps, pid) in &cx.prefixes {
        let got = xot.namespace_for_prefix(node, *pid).map(|n| xot.namespace_str(n).to_string());
        let want = sc.get(ps).cloned();
        if got != want {
            return Err(format!("namespace_for_prefix({:?}) = {:?}, scope model says {:?} {}", ps, got, want, here()));
        }
        let def = xot.is_prefix_defined(node, *pid);
        if want.is_some() && !def {
            return Err(format!("is_prefix_defined({:?}) is false although the prefix is bound {}", ps, here()));
        }
    }
    // prefix_for_namespace for every real namespace
    for (us, uid) in &cx.namespaces {
        if us.is_empty() {
            continue;
        }
        let got = xot.prefix_for_namespace(node, *uid).map(|p| xot.prefix_str(p).to_string());
        let bound: Vec<&String> = sc.iter().filter(|(_, u)| *u == us).map(|(p, _)| p).collect();
        match got {
            Some(p) => {
                if sc.get(&p) != Some(us) {
                    return Err(format!("prefix_for_namespace({:?}) = {:?}, but that prefix is bound to {:?} here {}", us, p, sc.get(&p), here()));
                }
            }
            None => {
                if !bound.is_empty() {
                    return Err(format!("prefix_for_namespace({:?}) = None although {:?} is bound to it {}", us, bound, here()));
                }
            }
        }
    }
    // qualified names
    let name_of: Option<(QName, bool)> = match (model, is_attr_named) {
        (ANode::Element(e), None) => Some((e.name.clone(), false)),
        (_, Some(q)) => Some((q.clone(), true)),
        _ => None,
    };
    let inexpressible = matches!(&name_of, Some((q, false)) if q.ns.is_empty() && sc.contains_key(""));
    if inexpressible {
        if cx.skip_no_ns_under_default {
            cx.skipped += 1;
        } else {
            cx.suspect = true;
        }
    }
    let name_of = if inexpressible && cx.skip_no_ns_under_default { None } else { name_of };
    if let Some((q, is_attr)) = name_of {
        let resolve = |prefix: &str| -> Option<String> {
            if is_attr {
                scope::resolve_attribute(sc, prefix)
            } else {
                scope::resolve_element(sc, prefix)
            }
        };
        let id = xot.name_ns(&q.local, xot.namespace(&q.ns).unwrap()).unwrap();
        if let Ok(full) = xot.full_name(node, id) {
            let (p, l) = match full.find(':') {
                Some(i) => (&full[..i], &full[i + 1..]),
                None => ("", full.as_str()),
            };
            if l != q.local || resolve(p).as_deref() != Some(q.ns.as_str()) {
                return Err(format!("full_name = {:?}, which denotes {:?} here, not {} {}", full, resolve(p), q.show(), here()));
            }
        }
        if let Ok(Some(r)) = xot.node_name_ref(node) {
            let p = r.prefix();
            if r.local_name() != q.local || r.namespace() != q.ns {
                return Err(format!("node_name_ref carries ({:?},{:?}) for {} {}", r.local_name(), r.namespace(), q.show(), here()));
            }
            if resolve(p).as_deref() != Some(q.ns.as_str()) {
                return Err(format!("node_name_ref gives prefix {:?}, which denotes {:?} here, not {} {}", p, resolve(p), q.show(), here()));
            }
        }
        if let Ok(r) = xot.name_ref(id, node) {
            let p = r.prefix();
            if resolve(p).as_deref() != Some(q.ns.as_str()) {
                return Err(format!("name_ref gives prefix {:?}, which denotes {:?} here, not {} {}", p, resolve(p), q.show(), here()));
            }
        }
    }
    // inherited_prefixes / unresolved_namespaces
    if is_attr_named.is_none() {
        let unres: Vec<String> = guarded(|| xot.unresolved_namespaces(node)).map_err(|p| format!("unresolved_namespaces panicked: {}", p))?
            .into_iter()
            .map(|u| xot.namespace_str(u).to_string())
            .collect();
        let mut all = BTreeSet::new();
        let mut unbound = BTreeSet::new();
        used(model, &Scope::new(), &mut all, &mut unbound);
        let mut loose = BTreeSet::new();
        not_prefixed_everywhere(model, &Scope::new(), &mut loose);
        for u in &unres {
            if !all.contains(u) {
                return Err(format!("unresolved_namespaces reports {:?}, which no name in the subtree uses {}", u, here()));
            }
            if !u.is_empty() && u != XML_NS && !loose.contains(u) {
                return Err(format!("unresolved_namespaces reports {:?} although every name that uses it has a prefixed declaration for it inside the subtree {}", u, here()));
            }
        }
        for u in &unbound {
            if !unres.contains(u) {
                return Err(format!("unresolved_namespaces misses {:?}, used where no declaration inside the subtree binds it {}", u, here()));
            }
        }
        let inh = guarded(|| xot.inherited_prefixes(node)).map_err(|p| format!("inherited_prefixes panicked: {}", p))?;
        for (p, u) in inh.iter() {
            let ps = xot.prefix_str(*p).to_string();
            let us = xot.namespace_str(*u).to_string();
            if parent_scope.get(&ps) != Some(&us) {
                return Err(format!("inherited_prefixes has {:?}->{:?}, which is not in scope at the parent {}", ps, us, here()));
            }
            if !unres.contains(&us) {
                return Err(format!("inherited_prefixes has {:?}->{:?}, a namespace unresolved_namespaces does not report {}", ps, us, here()));
            }
        }
    }
    let _ = depth_decls;
    Ok(())
}

fn walk(cx: &mut Cx, node: Node, model: &ANode, parent_scope: &Scope, ndecl_above: usize) -> Result<(), String> {
    let sc = match model {
        ANode::Element(e) => {
            if e.decls.iter().any(|(p, _)| parent_scope.contains_key(p)) {
                cx.shadow_seen = true;
            }
            scope::push(parent_scope, &e.decls)
        }
        _ => parent_scope.clone(),
    };
    let nd = ndecl_above + match model {
        ANode::Element(e) => e.decls.len(),
        _ => 0,
    };
    if nd >= 2 {
        cx.deep_decl_seen = true;
    }
    check_node(cx, node, model, &sc, parent_scope, nd, None)?;
    if let ANode::Element(e) = model {
        let attr_nodes: Vec<Node> = bounded(cx.xot.attributes(node).nodes(), 10_000, "attributes.nodes")?;
        for (an, (q, _)) in attr_nodes.iter().zip(e.attrs.iter()) {
            check_node(cx, *an, model, &sc, parent_scope, nd, Some(q))?;
        }
        let ns_nodes: Vec<Node> = bounded(cx.xot.namespaces(node).nodes(), 10_000, "namespaces.nodes")?;
        for nn in ns_nodes {
            // a namespace node sees the scope of its element
            let got: BTreeMap<String, String> = bounded(cx.xot.namespaces_in_scope(nn), 10_000, "namespaces_in_scope")?
                .into_iter()
                .map(|(p, u)| (cx.xot.prefix_str(p).to_string(), cx.xot.namespace_str(u).to_string()))
                .collect();
            if got != sc {
                return Err(format!("namespaces_in_scope(namespace node) = {:?}, model {:?}", got, sc));
            }
        }
    }
    let kids: Vec<Node> = bounded(cx.xot.children(node), 100_000, "children")?;
    for (k, c) in kids.iter().zip(model.children().iter()) {
        walk(cx, *k, c, &sc, nd)?;
    }
    Ok(())
}

impl Property for C09 {
    fn id(&self) -> &'static str {
        "C09"
    }
    fn rule(&self) -> &'static str {
        "case = tree with a free declaration layout (several prefixes per namespace, several namespaces per prefix along a path, shadowing at any depth, default namespace declared / redeclared / undeclared with xmlns=\"\", documents, fragments and unattached subtrees); for EVERY node (elements, attribute nodes, namespace nodes, text/comment/PI) and every prefix and namespace known to the Xot: namespaces_in_scope, namespace_for_prefix, prefix_for_namespace, is_prefix_defined, inherited_prefixes, unresolved_namespaces and the qualified names given by full_name / node_name_ref / name_ref are compared with an independent nearest-declaration-wins scope model (element vs attribute resolution rules). Non-trivial = some node with >= 2 declarations on its ancestor path and a shadowed prefix. Distinct by hash of the tree."
    }
    fn assumptions(&self) -> Vec<&'static str> {
        vec![
            "is_prefix_defined is not asserted for unbound prefixes (an undeclared default namespace is 'defined' in xot's reading)",
            "Err results of full_name / name_ref are not constrained (the statement speaks about the reported name)",
        ]
    }
    fn plans(&self, tier: Tier) -> Vec<Plan> {
        let mk = |name: &'static str, cases, max_nodes, variant| Plan {
            name,
            kind: PlanKind::Random { cases, max_len: 1000 },
            knobs: Knobs { max_nodes, variant, ..Default::default() },
        };
        match tier {
            Tier::Quick => vec![mk("trees", 300_000, 30, 0), mk("trees-many-prefixes", 150_000, 30, 1), mk("trees-moved", 120_000, 24, 2)],
            Tier::Thorough => vec![mk("trees", 2_000_000, 30, 0), mk("trees-big", 100_000, 100, 0), mk("trees-many-prefixes", 800_000, 30, 1), mk("trees-moved", 800_000, 24, 2)],
        }
    }

    fn check(&self, src: &mut Src, ctx: &mut Ctx) -> Verdict {
        let mut o = TreeOpts::xml(ctx.knobs.max_nodes);
        o.alpha = Alpha::Tiny;
        o.attr_alpha = Alpha::Tiny;
        o.scoping = Scoping::Free;
        o.max_depth = 8;
        // layered re-declarations and aliases make shadowing frequent
        o.redundant_decls = src.bool();
        // plan trees-moved: explicit declarations of the xml prefix as well
        o.xml_prefix_decls = ctx.knobs.variant == 2;
        let doc = match src.weighted(&[3, 2, 4]) {
            0 => gen::gen_document(src, &o),
            1 => gen::gen_fragment(src, &o),
            _ => gen::gen_element_tree(src, &o),
        };
        let mut xot = Xot::new();
        if ctx.knobs.variant == 1 {
            // plan trees-many-prefixes: the store knows well over 64 / 128 prefixes and namespaces before
            // the tree is built, and the ones the tree uses are spread over that range (ids are not small)
            let mut k = 0;
            for p in PREFIXES {
                xot.add_prefix(p);
                for _ in 0..63 {
                    xot.add_prefix(&format!("f{}", k));
                    xot.add_namespace(&format!("urn:filler:{}", k));
                    k += 1;
                }
            }
        }
        let mut hs = vec![];
        let root = match bridge::build(&mut xot, &doc, &mut hs) {
            Ok(r) => r,
            Err(e) => return Verdict::Fail(format!("harness: {}", e)),
        };
        let mut prefixes: Vec<(String, PrefixId)> = PREFIXES.iter().map(|p| (p.to_string(), xot.add_prefix(p))).collect();
        prefixes.push(("xml".into(), xot.xml_prefix()));
        prefixes.push(("never".into(), xot.add_prefix("never")));
        let mut namespaces: Vec<(String, NamespaceId)> = URIS_XML.iter().map(|u| (u.to_string(), xot.add_namespace(u))).collect();
        namespaces.push((XML_NS.into(), xot.xml_namespace()));
        namespaces.push(("urn:never".into(), xot.add_namespace("urn:never")));
        // make sure every name of the tree is registered (build did that) and ids resolvable
        let _ = name_id(&mut xot, &QName::new("", "a"));
        ctx.fingerprint(&doc);
        ctx.rendering(|| doc.show());
        let skip = ctx.is_known("noNsElementNameUnderDefaultNs");
        let mut cx = Cx { xot: &mut xot, prefixes, namespaces, shadow_seen: false, deep_decl_seen: false, checked: 0, skip_no_ns_under_default: skip, skipped: 0, suspect: false };
        let mut r = walk(&mut cx, root, &doc, &scope::base_scope(), 0);
        // plan trees-moved: every node has been asked about; now subtrees move to where other declarations
        // are in force (or out of the tree) and every node is asked again — answers may not be remembered
        // across a change of the tree. The new shape is read back through the structural API; the scope
        // each node must see is still computed here from the declarations alone.
        if ctx.knobs.variant == 2 && r.is_ok() {
            let moves = 1 + src.choice(3);
            for _ in 0..moves {
                let els: Vec<Node> = match crate::bridge::bounded(cx.xot.descendants(root), 100_000, "descendants") {
                    Ok(v) => v.into_iter().filter(|n| cx.xot.is_element(*n)).collect(),
                    Err(e) => return Verdict::Fail(e),
                };
                if els.len() < 2 {
                    break;
                }
                let a = els[src.choice_big(els.len())];
                let b = els[src.choice_big(els.len())];
                if a == root {
                    continue;
                }
                let mut top = root;
                if src.ratio(1, 4) {
                    if cx.xot.detach(a).is_err() {
                        return Verdict::Fail("harness: detach refused".into());
                    }
                    ctx.label("subtree_detached_then_asked_again");
                    top = a;
                } else {
                    if a == b || cx.xot.ancestors(b).any(|x| x == a) {
                        continue;
                    }
                    let res = match src.choice(3) {
                        0 => cx.xot.append(b, a),
                        1 => cx.xot.prepend(b, a),
                        _ => {
                            if b == root {
                                cx.xot.append(b, a)
                            } else {
                                cx.xot.insert_after(b, a)
                            }
                        }
                    };
                    if res.is_err() {
                        // e.g. a second element under a document node
                        continue;
                    }
                    ctx.label("subtree_moved_then_asked_again");
                }
                let now = match bridge::read(cx.xot, top) {
                    Ok(d) => d,
                    Err(e) => return Verdict::Fail(format!("harness: {}", e)),
                };
                r = walk(&mut cx, top, &now, &scope::base_scope(), 0).map_err(|e| format!("after moving a subtree (every node had been asked about before): {} [tree now {}]", e, now.show()));
                if r.is_err() || top != root {
                    break;
                }
            }
        }
        // never-declared prefix must not be reported as defined anywhere
        if r.is_ok() {
            let never = cx.prefixes.last().unwrap().1;
            if cx.xot.is_prefix_defined(root, never) {
                return Verdict::Fail("is_prefix_defined is true for a prefix that is declared nowhere".into());
            }
        }
        ctx.nontrivial = cx.shadow_seen && cx.deep_decl_seen;
        for _ in 0..cx.skipped {
            ctx.excluded.push("noNsElementNameUnderDefaultNs");
        }
        if cx.suspect {
            ctx.suspects.push("noNsElementNameUnderDefaultNs");
        }
        match r {
            Ok(()) => Verdict::Pass,
            Err(e) => Verdict::Fail(e),
        }
    }
}
