//! C15 — deduplicate_namespaces only removes redundant declarations.

use std::collections::BTreeMap;

use xot::Xot;

use crate::bridge;
use crate::engine::runner::guarded;
use crate::engine::{Ctx, Knobs, Plan, PlanKind, Property, Src, Tier, Verdict};
use crate::gen::{self, Alpha, TreeOpts};
use crate::model::ANode;
use crate::props::common::{same_tree, Cmp};

pub struct C15;

fn decl_maps(n: &ANode, out: &mut Vec<BTreeMap<String, String>>) {
    if let ANode::Element(e) = n {
        out.push(e.decls.iter().cloned().collect());
    }
    for c in n.children() {
        decl_maps(c, out);
    }
}

impl Property for C15 {
    fn id(&self) -> &'static str {
        "C15"
    }
    fn rule(&self) -> &'static str {
        "case = well-scoped tree seeded with redundancy (in-scope bindings re-declared at any depth, alias prefixes for a namespace, default namespaces interleaved with prefixed ones, attributes that need a prefixed binding while the default covers the element, prefixes shadowed below a candidate) and a start node (document, fragment or element); plan trees-stripped additionally strips the xmlns=\"\" that protects no-namespace elements below a default namespace and adds default declarations (API-only layouts the serializer repairs on the fly); precondition to_string Ok is checked and counted. After deduplicate_namespaces: every element's declaration map is a sub-map of its map before, names/attributes/content are unchanged, to_string still succeeds, the output reparses to the original content, and a second call removes nothing. Non-trivial = at least one declaration was removed or a redundant-looking candidate had to be kept. Distinct by hash of the tree."
    }
    fn plans(&self, tier: Tier) -> Vec<Plan> {
        let mk = |name: &'static str, cases, max_nodes, variant| Plan {
            name,
            kind: PlanKind::Random { cases, max_len: 1200 },
            knobs: Knobs { max_nodes, variant, ..Default::default() },
        };
        match tier {
            Tier::Quick => vec![mk("trees", 200_000, 30, 0), mk("trees-stripped", 200_000, 30, 1), mk("trees-xml-rebound", 100_000, 24, 2)],
            Tier::Thorough => vec![mk("trees", 1_500_000, 30, 0), mk("trees-big", 60_000, 100, 0), mk("trees-stripped", 1_500_000, 30, 1), mk("trees-xml-rebound", 600_000, 24, 2)],
        }
    }

    fn check(&self, src: &mut Src, ctx: &mut Ctx) -> Verdict {
        let mut o = TreeOpts::xml(ctx.knobs.max_nodes);
        o.alpha = Alpha::Tiny;
        o.attr_alpha = Alpha::Tiny;
        o.redundant_decls = true;
        o.max_depth = 6;
        let mut doc = match src.weighted(&[4, 2, 3]) {
            0 => gen::gen_document(src, &o),
            1 => gen::gen_fragment(src, &o),
            _ => gen::gen_element_tree(src, &o),
        };
        if ctx.knobs.variant == 1 {
            // plan trees-stripped: no-namespace elements below a default namespace without
            // their protecting xmlns="" (API-only layout; the serializer undeclares on the fly)
            gen::strip_undeclarations(&mut doc, src);
            // a prefix (other than xml) bound to the XML namespace: nothing XML can spell, but the API
            // allows it and the serializer simply leaves such a declaration out
            if src.ratio(1, 6) {
                fn bind_to_xml(n: &mut ANode, src: &mut Src, done: &mut bool) {
                    if *done {
                        return;
                    }
                    if let ANode::Element(e) = n {
                        if src.ratio(1, 3) {
                            let p = ["p", "q", "n0"][src.choice(3)];
                            e.decls.retain(|(dp, _)| dp != p);
                            e.decls.push((p.to_string(), crate::model::XML_NS.to_string()));
                            *done = true;
                            return;
                        }
                    }
                    if let Some(ch) = n.children_mut() {
                        for c in ch.iter_mut() {
                            bind_to_xml(c, src, done);
                        }
                    }
                }
                let mut done = false;
                bind_to_xml(&mut doc, src, &mut done);
                if done {
                    ctx.label("prefix_bound_to_the_xml_namespace");
                }
            }
        }
        if ctx.knobs.variant == 2 {
            // plan trees-xml-rebound: the prefix xml declared as another namespace on some elements
            // (Xot::set_namespace and the parser allow it). The serializer never writes or uses such a
            // declaration, so it is no reason to drop another declaration of that namespace
            fn rebind_xml(n: &mut ANode, src: &mut Src, top: bool, any: &mut bool) {
                if let ANode::Element(e) = n {
                    if src.ratio(1, if top { 2 } else { 5 }) {
                        let u = ["urn:a", "urn:b", "urn:c"][src.choice(3)];
                        e.decls.retain(|(p, _)| p != "xml");
                        let at = src.choice(e.decls.len() + 1);
                        e.decls.insert(at, ("xml".to_string(), u.to_string()));
                        *any = true;
                    }
                }
                if let Some(ch) = n.children_mut() {
                    for c in ch.iter_mut() {
                        rebind_xml(c, src, false, any);
                    }
                }
            }
            let mut any = false;
            if matches!(doc, ANode::Document(_)) {
                if let Some(ch) = doc.children_mut() {
                    for c in ch.iter_mut() {
                        rebind_xml(c, src, true, &mut any);
                    }
                }
            } else {
                rebind_xml(&mut doc, src, true, &mut any);
            }
            if any {
                ctx.label("xml_prefix_bound_to_another_namespace");
            }
        }
        let mut xot = Xot::new();
        let mut hs = vec![];
        let root = match bridge::build(&mut xot, &doc, &mut hs) {
            Ok(r) => r,
            Err(e) => return Verdict::Fail(format!("harness: {}", e)),
        };
        ctx.fingerprint(&doc);
        ctx.rendering(|| doc.show());
        // start node: the root or some element
        let els: Vec<xot::Node> = xot.descendants(root).take(100_000).filter(|n| xot.is_element(*n)).collect();
        let start = if els.is_empty() || src.ratio(2, 3) { root } else { els[src.choice_big(els.len())] };
        // the statement's precondition: serialises before (of the whole tree: a sub-element may rely on inherited bindings)
        let before_ok = matches!(guarded(|| xot.to_string(root)), Ok(Ok(_)));
        if !before_ok {
            ctx.label("not_serialisable_before");
            return Verdict::Pass;
        }
        let before_whole = match bridge::read(&xot, root) {
            Ok(b) => b,
            Err(e) => return Verdict::Fail(e),
        };
        let r: Result<(), String> = (|| {
            guarded(|| xot.deduplicate_namespaces(start)).map_err(|p| format!("deduplicate_namespaces panicked: {}", p))?;
            let after_whole = bridge::read(&xot, root)?;
            same_tree(&after_whole, &before_whole, Cmp::no_decls()).map_err(|e| format!("deduplicate_namespaces changed names or content: {}", e))?;
            let mut mb = vec![];
            let mut ma = vec![];
            decl_maps(&before_whole, &mut mb);
            decl_maps(&after_whole, &mut ma);
            let mut removed = 0;
            for (b, a) in mb.iter().zip(ma.iter()) {
                for (p, u) in a {
                    if b.get(p) != Some(u) {
                        return Err(format!("declaration {:?}={:?} was added or altered", p, u));
                    }
                }
                removed += b.len() - a.len();
            }
            if removed > 0 {
                ctx.label("removed_something");
                ctx.nontrivial = true;
            } else if mb.iter().map(|m| m.len()).sum::<usize>() >= 2 {
                ctx.label("kept_everything");
                ctx.nontrivial = true;
            }
            let s = guarded(|| xot.to_string(root))
                .map_err(|p| format!("to_string panicked after deduplication: {}", p))?
                .map_err(|e| format!("the tree serialised before deduplicate_namespaces but fails afterwards: {} (before {} after {})", e, before_whole.show(), after_whole.show()))?;
            let re = guarded(|| xot.parse_fragment(&s))
                .map_err(|p| format!("reparse panicked: {}", p))?
                .map_err(|e| format!("output {:?} after deduplication is rejected: {}", s, e))?;
            let got = bridge::read(&xot, re)?;
            let want = match &before_whole {
                ANode::Document(_) => before_whole.clone(),
                other => ANode::Document(vec![other.clone()]),
            };
            same_tree(&got, &want, Cmp::no_decls()).map_err(|e| format!("output {:?} after deduplication reparses to other content: {}", s, e))?;
            // idempotence
            guarded(|| xot.deduplicate_namespaces(start)).map_err(|p| format!("second deduplicate_namespaces panicked: {}", p))?;
            let again = bridge::read(&xot, root)?;
            if again != after_whole {
                return Err(format!("a second call changed the tree again: {} -> {}", after_whole.show(), again.show()));
            }
            Ok(())
        })();
        match r {
            Ok(()) => Verdict::Pass,
            Err(e) => Verdict::Fail(e),
        }
    }
}
