//! C03 — parser is total, rejects ill-formed text, and accepts only sound trees.

use xot::{Node, Xot};

use crate::bridge::{self, Handles};
use crate::engine::runner::guarded;
use crate::engine::{Ctx, Knobs, Plan, PlanKind, Property, Src, Tier, Verdict};
use crate::gen::render::{ItemKind, SpanRec};
use crate::model::{ANode, XML_NS};
use crate::props::c02::{make_case, Case};

pub struct C03;

const PIECES: &[&str] = &[
    "<a>", "</a>", "<b>", "</b>", "<a", "<p:a", "</p:a>", " x='1'", " y=\"2\"", " x='1'", " p:x='3'", "/>", ">", "<",
    "<!--", "-->", "--", "<![CDATA[", "]]>", "<?pi", "<?xml", "?>", " d", "&amp;", "&lt;", "&#x41;", "&#65;", "&#0;",
    "&#xD800;", "&", ";", "&nosuch;", "&#", " xmlns='u'", " xmlns:p='v'", " xmlns:p='w'", " xmlns=''", " xml:id='i'",
    " xml:space='preserve'", "<!DOCTYPE a>", "<!DOCTYPE a [", "]>", "<!ENTITY e 'v'>", "<?xml version='1.0'?>",
    "<?xml version='1.1'?>", "<?xml version='1.0' encoding='x-unknown'?>", "\u{feff}", "é", "\u{1F600}", " ", "\n", "\r",
    "\t", "text", "]", "'", "\"", "=", ":", "</", "\0", "\u{fffe}",
];

/// a likely-but-not-surely ill-formed edit (used for error spans in C17)
pub fn damage(src: &mut Src, text: &str) -> (String, &'static str) {
    let chars: Vec<(usize, char)> = text.char_indices().collect();
    if chars.is_empty() {
        return ("<".to_string(), "lone_lt");
    }
    let pos = chars[src.choice_big(chars.len())].0;
    match src.choice(8) {
        0 => (text[..pos].to_string(), "truncate"),
        1 => (format!("{}<{}", &text[..pos], &text[pos..]), "insert_lt"),
        2 => (format!("{}&{}", &text[..pos], &text[pos..]), "insert_amp"),
        3 => (format!("{}&#xD800;{}", &text[..pos], &text[pos..]), "insert_bad_ref"),
        4 => (format!("{}</zz>{}", &text[..pos], &text[pos..]), "insert_end_tag"),
        5 => (format!("{}<zz>{}", &text[..pos], &text[pos..]), "insert_start_tag"),
        6 => {
            let p = PIECES[src.choice(PIECES.len())];
            (format!("{}{}{}", &text[..pos], p, &text[pos..]), "insert_piece")
        }
        _ => {
            // delete one character
            let next = text[pos..].chars().next().map(|c| c.len_utf8()).unwrap_or(0);
            (format!("{}{}", &text[..pos], &text[pos + next..]), "delete_char")
        }
    }
}

#[derive(Clone, Copy, PartialEq, Eq, Debug)]
enum Scope {
    /// ill-formed for documents and fragments
    Both,
    /// ill-formed only as a document
    DocOnly,
}

fn pick_span<'c>(src: &mut Src, spans: &'c [SpanRec], f: impl Fn(&SpanRec) -> bool) -> Option<&'c SpanRec> {
    let v: Vec<&SpanRec> = spans.iter().filter(|s| f(s)).collect();
    if v.is_empty() {
        None
    } else {
        Some(v[src.choice_big(v.len())])
    }
}

fn char_pos_within(src: &mut Src, text: &str, start: usize, end: usize) -> usize {
    // a char boundary in [start, end]
    let cands: Vec<usize> = (start..=end).filter(|p| text.is_char_boundary(*p)).collect();
    cands[src.choice_big(cands.len())]
}

fn escape_attr(s: &str) -> String {
    s.replace('&', "&amp;").replace('<', "&lt;").replace('"', "&quot;")
}

fn attr_ns(exp: &ANode, rec: &SpanRec) -> Option<String> {
    let mut cur = exp;
    for i in &rec.path {
        cur = cur.children().get(*i)?;
    }
    if let (ANode::Element(_), ItemKind::AttrValue(q)) = (cur, &rec.kind) {
        return Some(q.ns.clone());
    }
    None
}

/// One catalogue edit that makes the rendering ill-formed by construction.
fn damage_sure(src: &mut Src, case: &Case) -> Option<(String, &'static str, Scope)> {
    let text = &case.rendered.text;
    let spans = &case.rendered.spans;
    let ins = |pos: usize, what: &str| -> String { format!("{}{}{}", &text[..pos], what, &text[pos..]) };
    let kind = src.choice(21);
    match kind {
        0 => {
            // rename an end tag
            let s = pick_span(src, spans, |s| s.kind == ItemKind::ElementEnd && s.end - s.start > 2)?;
            // second form (drawn last): the end tag drops the prefix of its start tag while the element
            // also declares that namespace as the default one — the same expanded name, but an end tag
            // has to repeat the start tag's name as written
            if src.ratio(1, 4) {
                let prefixed: Vec<(&SpanRec, &SpanRec)> = spans
                    .iter()
                    .filter(|e| e.kind == ItemKind::ElementEnd && e.end - e.start > 2)
                    .filter_map(|e| {
                        spans
                            .iter()
                            .find(|st| st.kind == ItemKind::ElementStart && st.path == e.path && text[st.start..st.end].contains(':'))
                            .map(|st| (st, e))
                    })
                    .collect();
                if !prefixed.is_empty() {
                    let (st, en) = prefixed[src.choice_big(prefixed.len())];
                    let mut cur = &case.rendered.expected;
                    for i in &st.path {
                        cur = cur.children().get(*i)?;
                    }
                    if let ANode::Element(el) = cur {
                        let written = &text[st.start..st.end];
                        let local = written.split(':').nth(1)?;
                        let end_tag = &text[en.start..en.end];
                        if end_tag.starts_with(&format!("</{}", written)) {
                            let new_end = format!("</{}{}", local, &end_tag[2 + written.len()..]);
                            let t = format!("{}{}{}", &text[..en.start], new_end, &text[en.end..]);
                            let t = format!("{} xmlns=\"{}\"{}", &t[..st.end], escape_attr(&el.name.ns), &t[st.end..]);
                            return Some((t, "end_tag_without_the_prefix_of_its_start_tag", Scope::Both));
                        }
                    }
                }
            }
            Some((ins(s.start + 2, "zz"), "end_tag_renamed", Scope::Both))
        }
        1 => {
            let s = pick_span(src, spans, |s| s.kind == ItemKind::ElementEnd && s.end - s.start > 2)?;
            Some((format!("{}{}", &text[..s.start], &text[s.end..]), "end_tag_deleted", Scope::Both))
        }
        2 => {
            // stray end tag after some element
            let s = pick_span(src, spans, |s| s.kind == ItemKind::ElementEnd)?;
            Some((ins(s.end, "</zz>"), "stray_end_tag", Scope::Both))
        }
        3 => {
            // truncate inside an attribute value / comment / PI target / start-tag name
            let s = pick_span(src, spans, |s| {
                matches!(s.kind, ItemKind::AttrValue(_) | ItemKind::Comment | ItemKind::PiTarget | ItemKind::ElementStart | ItemKind::AttrName(_))
            })?;
            let p = char_pos_within(src, text, s.start, s.end);
            Some((text[..p].to_string(), "truncated_inside_markup", Scope::Both))
        }
        4 => {
            if case.fragment {
                return None;
            }
            Some((format!("{}<extra/>", text), "second_root", Scope::DocOnly))
        }
        5 => {
            if case.fragment {
                return None;
            }
            Some((format!("{}zz", text), "top_level_text", Scope::DocOnly))
        }
        6 => {
            // duplicate an attribute exactly as written
            let v = pick_span(src, spans, |s| matches!(s.kind, ItemKind::AttrValue(_)))?;
            let n = spans.iter().find(|s| s.path == v.path && matches!((&s.kind, &v.kind), (ItemKind::AttrName(a), ItemKind::AttrValue(b)) if a == b))?;
            let name = &text[n.start..n.end];
            Some((ins(v.end + 1, &format!(" {}=\"dup\"", name)), "duplicate_attribute_as_written", Scope::Both))
        }
        7 => {
            // duplicate an attribute through an alias prefix bound to the same namespace
            let v = pick_span(src, spans, |s| matches!(&s.kind, ItemKind::AttrValue(q) if !q.ns.is_empty() && q.ns != XML_NS))?;
            let ns = attr_ns(&case.rendered.expected, v)?;
            let local = match &v.kind {
                ItemKind::AttrValue(q) => q.local.clone(),
                _ => return None,
            };
            // the alias is declared on the element itself, or (second form) on its top-most
            // ancestor, so that the element with the two attributes need not declare anything
            if src.bool() {
                if let Some(top) = spans.iter().find(|s| s.kind == ItemKind::ElementStart && s.path.len() == 1 && v.path.first() == s.path.first()) {
                    if top.end <= v.end {
                        let t = ins(v.end + 1, &format!(" zz9:{}=\"dup\"", local));
                        let t = format!("{} xmlns:zz9=\"{}\"{}", &t[..top.end], escape_attr(&ns), &t[top.end..]);
                        return Some((t, "duplicate_attribute_via_alias_prefix_declared_above", Scope::Both));
                    }
                }
            }
            Some((
                ins(v.end + 1, &format!(" xmlns:zz9=\"{}\" zz9:{}=\"dup\"", escape_attr(&ns), local)),
                "duplicate_attribute_via_alias_prefix",
                Scope::Both,
            ))
        }
        8 => {
            let s = pick_span(src, spans, |s| s.kind == ItemKind::ElementStart)?;
            let what = if src.bool() { " xmlns:zz8=\"u1\" xmlns:zz8=\"u2\"" } else { " xmlns=\"\" xmlns=\"u2\"" };
            // only sound when the element does not already declare the default namespace
            if what.contains("xmlns=\"\"") {
                let mut cur = &case.rendered.expected;
                for i in &s.path {
                    cur = cur.children().get(*i)?;
                }
                if let ANode::Element(e) = cur {
                    if !e.name.ns.is_empty() {
                        return None; // xmlns="" first would change the element's own name: still ill-formed, but keep it simple
                    }
                }
            }
            Some((ins(s.end, what), "prefix_declared_twice", Scope::Both))
        }
        9 => {
            let s = pick_span(src, spans, |s| s.kind == ItemKind::ElementStart)?;
            Some((ins(s.end, " zz7:a=\"1\""), "undeclared_attribute_prefix", Scope::Both))
        }
        10 => {
            let s = pick_span(src, spans, |s| s.kind == ItemKind::ElementEnd)?;
            // second form (drawn last): the prefix IS declared, but on an empty-element sibling written just
            // before — its scope has ended (also at the top level of a fragment)
            if src.ratio(1, 3) {
                let what = if src.bool() { "<zz4 xmlns:zz3=\"u\"/><zz3:e/>" } else { "<zz4 xmlns:zz3=\"u\" zz3:j=\"1\"></zz4><zz4 zz3:k=\"v\"/>" };
                return Some((ins(s.end, what), "prefix_declared_on_a_preceding_sibling_only", Scope::Both));
            }
            Some((ins(s.end, "<zz6:e/>"), "undeclared_element_prefix", Scope::Both))
        }
        11 => {
            let s = pick_span(src, spans, |s| s.kind == ItemKind::ElementEnd)?;
            let what = ["< ", "& ", "&;", "&#;", "&#x;", "&#xZZ;", "&nosuch;", "&amp "][src.choice(8)];
            // followed by a run of (multi-byte) characters without ';' so that error paths see long tails
            let mut w = what.to_string();
            let fill = src.choice(48);
            for _ in 0..fill {
                w.push_str(["a", "é", "研", "\u{1F600}", " "][src.choice(5)]);
            }
            // inside content when the element has an explicit end tag, else right after it
            let at = if s.end - s.start > 2 { s.start } else { s.end };
            // second form (drawn last): the same junk as the value of a namespace declaration,
            // default or prefixed, on some start tag
            if src.ratio(1, 4) {
                if let Some(st) = pick_span(src, spans, |s| s.kind == ItemKind::ElementStart) {
                    let decl = if src.bool() { "xmlns" } else { "xmlns:zz7" };
                    let junk = ["&", "& ", "&;", "&#;", "&#x;", "&#xZZ;", "&nosuch;", "&amp", "<", "&#0;", "&#xFFFF;"][src.choice(11)];
                    return Some((ins(st.end, &format!(" {}=\"u{}v\"", decl, junk)), "malformed_reference_in_namespace_declaration", Scope::Both));
                }
            }
            // third form (drawn last): a predefined entity named in another case — entity names are
            // case-sensitive, &AMP; is a reference to an undeclared entity
            if src.ratio(1, 5) {
                let e = ["&AMP;", "&Lt;", "&GT;", "&Quot;", "&APOS;", "&aMp;"][src.choice(6)];
                if src.bool() {
                    if let Some(v) = pick_span(src, spans, |s| matches!(s.kind, ItemKind::AttrValue(_))) {
                        return Some((ins(v.start, e), "predefined_entity_name_in_another_case", Scope::Both));
                    }
                }
                return Some((ins(at, e), "predefined_entity_name_in_another_case", Scope::Both));
            }
            Some((ins(at, &w), "raw_markup_char_or_malformed_reference", Scope::Both))
        }
        12 => {
            let v = pick_span(src, spans, |s| matches!(s.kind, ItemKind::AttrValue(_)))?;
            let what = ["<", "& ", "&#xZZ;"][src.choice(3)];
            Some((ins(v.start, what), "raw_lt_or_amp_in_attribute", Scope::Both))
        }
        13 => {
            let s = pick_span(src, spans, |s| s.kind == ItemKind::Comment)?;
            let p = char_pos_within(src, text, s.start, s.end);
            if text[p..].starts_with('>') {
                // "-->" would simply end the comment early and leave well-formed text behind
                return None;
            }
            Some((ins(p, "--"), "double_hyphen_in_comment", Scope::Both))
        }
        14 => {
            let s = pick_span(src, spans, |s| s.kind == ItemKind::ElementEnd)?;
            let what = ["<? x?>", "<?>", "<!-- unterminated", "<?pi unterminated"][src.choice(4)];
            if what.contains("unterminated") {
                if text[s.end..].contains("-->") || text[s.end..].contains("?>") {
                    return None;
                }
            }
            // second form (drawn last): the reserved target in mixed case
            if src.ratio(1, 4) {
                let what = ["<?Xml?>", "<?xML d?>", "<?XMl?>", "<?xmL version=\"1.0\"?>"][src.choice(4)];
                return Some((ins(s.end, what), "reserved_pi_target_in_mixed_case", Scope::Both));
            }
            Some((ins(s.end, what), "malformed_pi_or_unterminated_comment", Scope::Both))
        }
        15 => {
            let s = pick_span(src, spans, |s| s.kind == ItemKind::ElementEnd)?;
            if text[s.end..].contains("]]>") {
                return None;
            }
            Some((ins(s.end, "<![CDATA[ unterminated"), "unterminated_cdata", Scope::Both))
        }
        16 => {
            // reference to a code point outside the XML Char range
            let s = pick_span(src, spans, |s| s.kind == ItemKind::ElementEnd)?;
            let what = ["&#0;", "&#1;", "&#8;", "&#xB;", "&#xC;", "&#xE;", "&#x1F;", "&#xD800;", "&#xDFFF;", "&#xFFFE;", "&#xFFFF;", "&#x110000;", "&#+65;", "&#x+41;"][src.choice(14)];
            // after the root of a document character data is not allowed anyway; put it inside: before the end tag
            let at = if s.end - s.start > 2 { s.start } else { return None };
            // second form (drawn last): numbers beyond u32 / u64 that wrap around to a legal character
            if src.ratio(1, 4) {
                let what = ["&#4294967361;", "&#x100000041;", "&#18446744073709551681;", "&#x10000000000000041;", "&#4294967296;"][src.choice(5)];
                return Some((ins(at, what), "reference_number_that_wraps_around", Scope::Both));
            }
            Some((ins(at, what), "reference_to_non_char", Scope::Both))
        }
        17 => {
            if case.fragment {
                // DTDs are refused in fragments too
                return Some((format!("<!DOCTYPE r>{}", text), "doctype", Scope::Both));
            }
            let s = spans.iter().find(|s| s.kind == ItemKind::ElementStart && s.path.len() == 1)?;
            Some((ins(s.start - 1, if src.bool() { "<!DOCTYPE r>" } else { "<!DOCTYPE r [<!ENTITY e 'v'>]>" }), "doctype", Scope::DocOnly))
        }
        18 => {
            if case.fragment || text.starts_with('\u{feff}') || text.starts_with("<?xml") {
                return None;
            }
            let v = ["1.1", "2.0", "", "1.00"][src.choice(4)];
            Some((format!("<?xml version=\"{}\"?>{}", v, text), "unsupported_version", Scope::DocOnly))
        }
        19 => {
            // end tag spelled with another prefix bound to the same namespace
            let st = pick_span(src, spans, |s| s.kind == ItemKind::ElementStart)?;
            let en = spans.iter().find(|s| s.path == st.path && s.kind == ItemKind::ElementEnd)?;
            if en.end - en.start <= 2 {
                return None;
            }
            let mut cur = &case.rendered.expected;
            for i in &st.path {
                cur = cur.children().get(*i)?;
            }
            let e = cur.as_elem()?;
            if e.name.ns.is_empty() {
                return None;
            }
            let t = format!(
                "{} xmlns:zz5=\"{}\"{}</zz5:{}>{}",
                &text[..st.end],
                escape_attr(&e.name.ns),
                &text[st.end..en.start],
                e.name.local,
                &text[en.end..]
            );
            Some((t, "end_tag_with_alias_prefix", Scope::Both))
        }
        _ => {
            // second xml:id equal after normalisation
            let els: Vec<&SpanRec> = spans.iter().filter(|s| s.kind == ItemKind::ElementStart).collect();
            if els.len() < 2 {
                return None;
            }
            let a = els[src.choice_big(els.len())];
            let b = els[src.choice_big(els.len())];
            if a.path == b.path {
                return None;
            }
            let has_id = |s: &SpanRec| spans.iter().any(|x| x.path == s.path && matches!(&x.kind, ItemKind::AttrName(q) if q.ns == XML_NS && q.local == "id"));
            if has_id(a) || has_id(b) {
                return None;
            }
            let (first, second) = if a.end < b.end { (a, b) } else { (b, a) };
            let t = format!(
                "{} xml:id=\"dupZ\"{} xml:id=\"  dupZ \"{}",
                &text[..first.end],
                &text[first.end..second.end],
                &text[second.end..]
            );
            // second form (drawn last): two ids that are EMPTY after normalisation
            if src.ratio(1, 4) {
                if let Some(s) = pick_span(src, spans, |s| s.kind == ItemKind::ElementEnd && s.end - s.start > 2) {
                    let a = ["", " ", "   "][src.choice(3)];
                    let b = ["", " ", "  "][src.choice(3)];
                    return Some((ins(s.start, &format!("<zz2 xml:id=\"{}\"/><zz2 xml:id=\"{}\"/>", a, b)), "duplicate_empty_xml_id", Scope::Both));
                }
            }
            Some((t, "duplicate_xml_id", Scope::Both))
        }
    }
}

/// whatever is accepted must be sound
fn accepted_is_sound(xot: &mut Xot, root: Node, is_document_entry: bool) -> Result<(), String> {
    let mut known = Handles::default();
    known.add(root);
    let snap = bridge::snapshot(xot, &mut known)?;
    bridge::check_structure(xot, &snap, true)?;
    if is_document_entry {
        xot.validate_well_formed_document(root)
            .map_err(|e| format!("accepted by parse but validate_well_formed_document says: {}", e))?;
    }
    let s = guarded(|| xot.to_string(root))
        .map_err(|p| format!("to_string of an accepted tree panicked: {}", p))?
        .map_err(|e| format!("to_string of an accepted tree failed: {}", e))?;
    let again = guarded(|| if is_document_entry { xot.parse(&s) } else { xot.parse_fragment(&s) })
        .map_err(|p| format!("reparse of {:?} panicked: {}", s, p))?
        .map_err(|e| format!("the serialisation {:?} of an accepted tree is rejected: {}", s, e))?;
    if !xot.deep_equal(root, again) {
        let a = bridge::read(xot, root).map(|a| a.show()).unwrap_or_default();
        let b = bridge::read(xot, again).map(|a| a.show()).unwrap_or_default();
        return Err(format!("accepted tree {} reparses (via {:?}) as {} which is not deep_equal", a, s, b));
    }
    Ok(())
}

impl Property for C03 {
    fn id(&self) -> &'static str {
        "C03"
    }
    fn rule(&self) -> &'static str {
        "five generators: (bytes-encoded) byte order marks / encoding labels from a catalogue + a generated document encoded as UTF-8/16/32 or single bytes, cut anywhere, fed to parse_bytes; (history) 2-6 inputs through ONE Xot (well-formed text, catalogue edits, text cut while the root is open, probes using a prefix declared only in an earlier input, a plain no-namespace probe): the verdict and the reading may not depend on earlier inputs; (garbage) random concatenations of XML token pieces, raw bytes and arbitrary Unicode fed to parse, parse_with_span_info, parse_fragment and parse_bytes; (damage) a generated well-formed rendering (confirmed accepted first) with ONE catalogue edit that makes it ill-formed by construction (mismatched/missing/stray tags, truncation inside markup, second root, top-level text, attribute duplicated as written or via an alias prefix, prefix declared twice, undeclared prefixes, raw '<' / '&', malformed references, predefined entity names in another case, references to non-Chars, '--' in comments, malformed PIs, unterminated comment/PI/CDATA, DOCTYPE, version != 1.0, duplicate xml:id); oracle: never a panic; damaged text must be rejected by every entry point for which the edit is ill-formed; whatever is accepted must satisfy the C04 structural invariants, validate_well_formed_document (parse), serialise, reparse and be deep_equal. Non-trivial = (bytes-encoded) a mark, a label or a non-UTF-8 payload is present, (history) a probe ran after an input that failed with declaring elements still open, (damage) the undamaged text was accepted (and must itself be a sound tree) and the edit applied, (garbage) the input contains at least one start tag. Distinct by hash of the input."
    }
    fn plans(&self, tier: Tier) -> Vec<Plan> {
        let mk = |name: &'static str, cases, variant, max_len| Plan {
            name,
            kind: PlanKind::Random { cases, max_len },
            knobs: Knobs { max_nodes: 14, variant, ..Default::default() },
        };
        match tier {
            Tier::Quick => vec![mk("damage", 300_000, 0, 1000), mk("garbage", 200_000, 1, 200), mk("bytes", 60_000, 2, 200), mk("text-soup", 100_000, 3, 200), mk("bytes-encoded", 80_000, 4, 600), mk("history", 60_000, 5, 1200)],
            Tier::Thorough => vec![mk("damage", 6_000_000, 0, 1000), mk("garbage", 4_000_000, 1, 300), mk("bytes", 1_000_000, 2, 300), mk("text-soup", 3_000_000, 3, 300), mk("bytes-encoded", 1_500_000, 4, 600), mk("history", 1_000_000, 5, 1200)],
        }
    }

    fn check(&self, src: &mut Src, ctx: &mut Ctx) -> Verdict {
        let mut xot = Xot::new();
        match ctx.knobs.variant {
            0 => {
                let fragment = src.ratio(1, 4);
                let case = match make_case(src, &ctx.knobs, fragment, false, true) {
                    Ok(c) => c,
                    Err(_) => return Verdict::Pass,
                };
                // the undamaged text must be accepted (else the edit proves nothing)
                let ok = guarded(|| if fragment { xot.parse_fragment(&case.rendered.text).ok() } else { xot.parse(&case.rendered.text).ok() });
                let undamaged_root = match ok {
                    Ok(Some(r)) => r,
                    _ => {
                        ctx.label("undamaged_not_accepted");
                        return Verdict::Pass; // C02 reports this
                    }
                };
                // what was accepted is a sound tree (rich renderings: shadowed and re-bound prefixes,
                // CDATA, references, line ends)
                if let Err(e) = accepted_is_sound(&mut xot, undamaged_root, !fragment) {
                    ctx.rendering(|| format!("undamaged: {:?}", case.rendered.text));
                    return Verdict::Fail(format!("{} accepted the well-formed input, but: {}", if fragment { "parse_fragment" } else { "parse" }, e));
                }
                let (text, what, scope) = match damage_sure(src, &case) {
                    Some(x) => x,
                    None => {
                        ctx.label("edit_not_applicable");
                        return Verdict::Pass;
                    }
                };
                ctx.label(what);
                ctx.nontrivial = true;
                ctx.fingerprint(&text);
                ctx.rendering(|| format!("{}: {:?}", what, text));
                let _ = scope;
                let entries: Vec<&'static str> = if fragment { vec!["parse_fragment", "parse_fragment_with_span_info"] } else { vec!["parse", "parse_with_span_info", "parse_bytes"] };
                for en in entries {
                    let r = guarded(|| match en {
                        "parse" => xot.parse(&text).map(|_| ()),
                        "parse_with_span_info" => xot.parse_with_span_info(&text).map(|_| ()),
                        "parse_bytes" => xot.parse_bytes(text.as_bytes()).map(|_| ()),
                        "parse_fragment" => xot.parse_fragment(&text).map(|_| ()),
                        _ => xot.parse_fragment_with_span_info(&text).map(|_| ()),
                    });
                    match r {
                        Err(p) => return Verdict::Fail(format!("{} panicked on ill-formed input ({}): {}", en, what, p)),
                        Ok(Ok(())) => return Verdict::Fail(format!("{} accepted ill-formed input ({})", en, what)),
                        Ok(Err(_)) => {}
                    }
                }
                Verdict::Pass
            }
            5 => self.history(src, ctx),
            4 => self.bytes_encoded(src, ctx),
            v => {
                let (text, bytes): (String, Vec<u8>) = if v == 3 {
                    // character-data soup inside one element or one attribute value
                    const SOUP: &[&str] = &["a", "b", " ", "é", "研", "究", "\u{1F600}", "&", ";", "#", "x", "1", "amp", "lt", "&#", "&#x", "]", ">", "\r", "\n", "\t", "\u{a0}", "\u{fffd}", "'", "\""];
                    let n = src.choice(90);
                    let mut soup = String::new();
                    for i in 0..n {
                        if i > 0 && src.exhausted() {
                            break;
                        }
                        soup.push_str(SOUP[src.weighted(&[6, 3, 3, 6, 6, 4, 4, 3, 2, 1, 1, 1, 1, 1, 1, 1, 1, 1, 1, 1, 1, 1, 1, 1, 1])]);
                    }
                    let s = match src.choice(3) {
                        0 => format!("<a>{}</a>", soup),
                        1 => format!("<a k=\"{}\"/>", soup.replace('"', "")),
                        _ => {
                            // (drawn after the soup) prefixed or default declaration
                            if src.bool() {
                                format!("<a xmlns:p=\"{}\"/>", soup.replace('"', ""))
                            } else {
                                format!("<a xmlns=\"{}\"/>", soup.replace('"', ""))
                            }
                        }
                    };
                    let b = s.as_bytes().to_vec();
                    (s, b)
                } else if v == 1 {
                    let n = src.choice(30);
                    let mut s = String::new();
                    for i in 0..n {
                        if i > 0 && src.exhausted() {
                            break;
                        }
                        s.push_str(PIECES[src.choice(PIECES.len())]);
                    }
                    let b = s.as_bytes().to_vec();
                    (s, b)
                } else {
                    let b = src.rest().to_vec();
                    (String::from_utf8_lossy(&b).into_owned(), b)
                };
                ctx.fingerprint(&bytes);
                ctx.nontrivial = text.contains("<a") || text.contains("<b") || text.contains("<p:");
                if v == 3 {
                    ctx.nontrivial = text.contains('&') || text.chars().any(|c| c.len_utf8() > 1);
                }
                ctx.rendering(|| format!("{:?}", text));
                for en in ["parse", "parse_with_span_info", "parse_fragment", "parse_fragment_with_span_info", "parse_bytes"] {
                    let r: Result<Result<Node, String>, String> = guarded(|| match en {
                        "parse" => xot.parse(&text).map_err(|e| e.to_string()),
                        "parse_with_span_info" => xot.parse_with_span_info(&text).map(|x| x.0).map_err(|e| e.to_string()),
                        "parse_fragment" => xot.parse_fragment(&text).map_err(|e| e.to_string()),
                        "parse_fragment_with_span_info" => xot.parse_fragment_with_span_info(&text).map(|x| x.0).map_err(|e| e.to_string()),
                        _ => xot.parse_bytes(&bytes).map_err(|e| e.to_string()),
                    });
                    match r {
                        Err(p) => return Verdict::Fail(format!("{} panicked: {}", en, p)),
                        Ok(Err(_)) => {
                            ctx.label("rejected");
                        }
                        Ok(Ok(root)) => {
                            ctx.label("accepted");
                            let doc_entry = !en.starts_with("parse_fragment");
                            if let Err(e) = accepted_is_sound(&mut xot, root, doc_entry) {
                                return Verdict::Fail(format!("{} accepted the input, but: {}", en, e));
                            }
                        }
                    }
                }
                Verdict::Pass
            }
        }
    }
}

fn collect_prefixes(n: &ANode, out: &mut Vec<String>) {
    if let ANode::Element(e) = n {
        for (p, _) in &e.decls {
            if !p.is_empty() && p != "xml" && !out.contains(p) {
                out.push(p.clone());
            }
        }
    }
    for c in n.children() {
        collect_prefixes(c, out);
    }
}

fn parse_by(xot: &mut Xot, en: usize, text: &str) -> Result<Result<Node, String>, String> {
    guarded(|| match en {
        0 => xot.parse(text).map_err(|e| e.to_string()),
        1 => xot.parse_with_span_info(text).map(|x| x.0).map_err(|e| e.to_string()),
        2 => xot.parse_bytes(text.as_bytes()).map_err(|e| e.to_string()),
        3 => xot.parse_fragment(text).map_err(|e| e.to_string()),
        _ => xot.parse_fragment_with_span_info(text).map(|x| x.0).map_err(|e| e.to_string()),
    })
}
const ENTRY: [&str; 5] = ["parse", "parse_with_span_info", "parse_bytes", "parse_fragment", "parse_fragment_with_span_info"];

impl C03 {
    /// plan history: several inputs parsed one after the other by ONE Xot. Whether a text is rejected, and
    /// what an accepted text denotes, may not depend on what that Xot parsed (or failed to parse) before:
    /// ill-formed steps (catalogue edits, input that stops while elements are open, names whose prefix is
    /// declared only in an earlier input) must be rejected at every point of the history, and a plain
    /// probe document must come out with its names in no namespace.
    fn history(&self, src: &mut Src, ctx: &mut Ctx) -> Verdict {
        let case = match make_case(src, &ctx.knobs, false, false, true) {
            Ok(c) => c,
            Err(_) => return Verdict::Pass,
        };
        let text = &case.rendered.text;
        {
            let mut fresh = Xot::new();
            if guarded(|| fresh.parse(text).is_ok()) != Ok(true) {
                ctx.label("undamaged_not_accepted");
                return Verdict::Pass;
            }
        }
        let mut prefixes = vec![];
        collect_prefixes(&case.rendered.expected, &mut prefixes);
        let has_default = {
            fn any_default(n: &ANode) -> bool {
                matches!(n, ANode::Element(e) if e.decls.iter().any(|(p, u)| p.is_empty() && !u.is_empty())) || n.children().iter().any(any_default)
            }
            any_default(&case.rendered.expected)
        };
        // positions of a '<' at which the root element is open (after its start tag, up to its end tag)
        let spans = &case.rendered.spans;
        let root_start = spans.iter().find(|s| s.kind == ItemKind::ElementStart && s.path.len() == 1);
        let root_end = root_start.and_then(|st| spans.iter().find(|s| s.kind == ItemKind::ElementEnd && s.path == st.path));
        let lts: Vec<usize> = match (root_start, root_end) {
            (Some(st), Some(en)) => text.char_indices().filter(|(i, c)| *c == '<' && *i > st.end && *i <= en.start).map(|(i, _)| i).collect(),
            _ => vec![],
        };
        let mut xot = Xot::new();
        let steps = 2 + src.choice(5);
        let mut log: Vec<String> = vec![];
        let mut failed_open = false;
        let mut probed_after_open = false;
        for step in 0..steps {
            if step > 1 && src.exhausted() {
                break;
            }
            let doc_en = src.choice(3);
            let (input, must_reject, what): (String, bool, &'static str) = match src.weighted(&[2, 3, 4, 4, 3]) {
                0 => (text.clone(), false, "undamaged"),
                1 => match damage_sure(src, &case) {
                    Some((t, w, _)) => (t, true, w),
                    None => continue,
                },
                2 => {
                    if lts.is_empty() {
                        continue;
                    }
                    // the input stops between two tokens: at least the root element is still open
                    let at = lts[src.choice_big(lts.len())];
                    let head = &text[..at];
                    // only count it when a start tag has been seen
                    if !head.contains('<') {
                        continue;
                    }
                    (head.to_string(), true, "input_stops_with_open_elements")
                }
                3 => {
                    if prefixes.is_empty() {
                        continue;
                    }
                    let p = &prefixes[src.choice_big(prefixes.len())];
                    let t = match src.choice(3) {
                        0 => format!("<doc><{}:x/></doc>", p),
                        1 => format!("<{}:doc/>", p),
                        _ => format!("<doc {}:k=\"v\"/>", p),
                    };
                    (t, true, "prefix_declared_only_in_an_earlier_input")
                }
                _ => ("<doc k=\"v\"><x/>t</doc>".to_string(), false, "plain_probe"),
            };
            log.push(format!("{}({})", ENTRY[doc_en], what));
            ctx.label(what);
            let r = parse_by(&mut xot, doc_en, &input);
            match r {
                Err(p) => {
                    ctx.rendering(|| format!("{} | base {:?} | last input {:?}", log.join("; "), text, input));
                    return Verdict::Fail(format!("step {}: {} panicked: {}", step, ENTRY[doc_en], p));
                }
                Ok(Ok(root)) => {
                    if must_reject {
                        ctx.rendering(|| format!("{} | base {:?} | last input {:?}", log.join("; "), text, input));
                        return Verdict::Fail(format!("step {}: {} accepted ill-formed input ({}) after the earlier inputs of this Xot", step, ENTRY[doc_en], what));
                    }
                    if let Err(e) = accepted_is_sound(&mut xot, root, true) {
                        ctx.rendering(|| format!("{} | base {:?} | last input {:?}", log.join("; "), text, input));
                        return Verdict::Fail(format!("step {}: {} accepted the input ({}), but: {}", step, ENTRY[doc_en], what, e));
                    }
                    if what == "plain_probe" {
                        let want = "#doc[<doc k=\"v\"><x></>T\"t\"</>]";
                        let got = bridge::read(&xot, root).map(|a| a.show());
                        if got.as_deref() != Ok(want) {
                            ctx.rendering(|| format!("{} | base {:?}", log.join("; "), text));
                            return Verdict::Fail(format!("step {}: the plain probe document was read as {:?} instead of {}", step, got, want));
                        }
                        if failed_open {
                            probed_after_open = true;
                        }
                    }
                }
                Ok(Err(_)) => {
                    if what == "input_stops_with_open_elements" {
                        failed_open = true;
                    }
                    if what == "prefix_declared_only_in_an_earlier_input" && failed_open {
                        probed_after_open = true;
                    }
                    if !must_reject && what == "plain_probe" {
                        ctx.rendering(|| format!("{} | base {:?}", log.join("; "), text));
                        return Verdict::Fail(format!("step {}: the plain probe document was rejected after the earlier inputs of this Xot", step));
                    }
                }
            }
        }
        ctx.fingerprint(&(text, &log));
        ctx.rendering(|| format!("{} | base {:?}", log.join("; "), text));
        if probed_after_open && (has_default || !prefixes.is_empty()) {
            ctx.nontrivial = true;
            ctx.label("probe_after_failure_with_open_declaring_elements");
        }
        Verdict::Pass
    }

    /// plan bytes-encoded: byte input that reaches the encoding detection of parse_bytes — a byte order
    /// mark or an encoding declaration from a catalogue, followed by a generated document encoded as
    /// UTF-8 / UTF-16 / UTF-32 / single bytes, possibly cut at any byte and with a few bytes overwritten.
    fn bytes_encoded(&self, src: &mut Src, ctx: &mut Ctx) -> Verdict {
        const BOMS: &[&[u8]] = &[b"", b"\xEF\xBB\xBF", b"\xFF\xFE", b"\xFE\xFF", b"\xFF\xFE\x00\x00", b"\x00\x00\xFE\xFF", b"\xFE\xFF\x00\x00", b"\x00\x00\xFF\xFE", b"\x2B\x2F\x76", b"\xEF\xBB", b"\xFF"];
        const LABELS: &[&str] = &["", "UTF-8", "utf-16", "UTF-16LE", "UTF-16BE", "UTF-32", "ucs-4", "ISO-8859-1", "windows-1252", "us-ascii", "latin1", "x-user-defined", "replacement", "Shift_JIS", "ISO-2022-JP", "gb18030", "utf-7", "x-unknown", " utf-8", "UTF8", ""];
        let mut xot = Xot::new();
        let body = match make_case(src, &ctx.knobs, false, false, false) {
            Ok(c) => c.rendered.text,
            Err(_) => "<a>é</a>".to_string(),
        };
        let label = LABELS[src.choice(LABELS.len())];
        let decl = if label.is_empty() { String::new() } else { format!("<?xml version=\"1.0\" encoding=\"{}\"?>", label) };
        let text = format!("{}{}", decl, body);
        let bom = BOMS[src.choice(BOMS.len())];
        let mut bytes: Vec<u8> = bom.to_vec();
        let enc = src.choice(6);
        match enc {
            0 => bytes.extend_from_slice(text.as_bytes()),
            1 => text.encode_utf16().for_each(|u| bytes.extend_from_slice(&u.to_le_bytes())),
            2 => text.encode_utf16().for_each(|u| bytes.extend_from_slice(&u.to_be_bytes())),
            3 => text.chars().for_each(|c| bytes.extend_from_slice(&(c as u32).to_le_bytes())),
            4 => text.chars().for_each(|c| bytes.extend_from_slice(&(c as u32).to_be_bytes())),
            _ => text.chars().for_each(|c| bytes.push(if (c as u32) < 256 { c as u32 as u8 } else { b'?' })),
        }
        // cut anywhere (odd lengths for the two- and four-byte forms included)
        if src.ratio(1, 2) && !bytes.is_empty() {
            let keep = src.choice_big(bytes.len() + 1);
            bytes.truncate(keep);
        }
        let n = src.choice(4);
        for _ in 0..n {
            if bytes.is_empty() {
                break;
            }
            let at = src.choice_big(bytes.len());
            bytes[at] = src.choice(256) as u8;
        }
        ctx.fingerprint(&bytes);
        ctx.label(["enc_utf8", "enc_utf16le", "enc_utf16be", "enc_utf32le", "enc_utf32be", "enc_single_byte"][enc]);
        ctx.nontrivial = !bom.is_empty() || !label.is_empty() || enc != 0;
        ctx.rendering(|| format!("{:?}", bytes));
        let r: Result<Result<Node, String>, String> = guarded(|| xot.parse_bytes(&bytes).map_err(|e| e.to_string()));
        match r {
            Err(p) => Verdict::Fail(format!("parse_bytes panicked: {}", p)),
            Ok(Err(_)) => {
                ctx.label("rejected");
                Verdict::Pass
            }
            Ok(Ok(root)) => {
                ctx.label("accepted");
                match accepted_is_sound(&mut xot, root, true) {
                    Ok(()) => Verdict::Pass,
                    Err(e) => Verdict::Fail(format!("parse_bytes accepted the input, but: {}", e)),
                }
            }
        }
    }
}
