//! C01 — serialise-then-parse returns the same tree.

use xot::{Node, Xot};

use crate::bridge;
use crate::engine::runner::guarded;
use crate::engine::{Ctx, Knobs, Plan, PlanKind, Property, Src, Tier, Verdict};
use crate::gen::render::{self, Style};
use crate::gen::{self, TreeOpts};
use crate::model::scope::{self, Scope};
use crate::model::{AElem, ANode};
use crate::props::common::{has_decls, has_special_chars, same_tree, Cmp};

pub struct C01;

/// build the abstract tree by one of three routes; returns the root
pub fn build_by_route(xot: &mut Xot, doc: &ANode, src: &mut Src, ctx: &mut Ctx) -> Result<Node, String> {
    match src.choice(3) {
        0 => {
            ctx.label("route_creation");
            let mut hs = vec![];
            bridge::build(xot, doc, &mut hs)
        }
        1 => {
            ctx.label("route_creation_and_moves");
            let mut orders = vec![];
            bridge::build_ordered(xot, doc, src, &mut orders)
        }
        _ => {
            ctx.label("route_parse");
            let fragment = !is_well_formed_document(doc);
            let st = Style { fragment, ..Style::rich() };
            let text = match doc {
                ANode::Document(_) => render::render(src, doc, st)?.text,
                _ => render::render(src, doc, Style { fragment: false, prolog: false, ..Style::rich() })?.text,
            };
            let root = if fragment && matches!(doc, ANode::Document(_)) {
                xot.parse_fragment(&text).map_err(|e| format!("harness: rendering not accepted: {} ({:?})", e, text))?
            } else {
                xot.parse(&text).map_err(|e| format!("harness: rendering not accepted: {} ({:?})", e, text))?
            };
            match doc {
                ANode::Document(_) => Ok(root),
                _ => xot.document_element(root).map_err(|e| e.to_string()),
            }
        }
    }
}

pub fn is_well_formed_document(doc: &ANode) -> bool {
    match doc {
        ANode::Document(ch) => {
            ch.iter().filter(|c| matches!(c, ANode::Element(_))).count() == 1 && !ch.iter().any(|c| c.is_text())
        }
        _ => false,
    }
}

/// all element paths (child indices) of a tree, with the scope in force at the parent
fn element_paths(n: &ANode, sc: &Scope, path: &mut Vec<usize>, out: &mut Vec<(Vec<usize>, Scope)>) {
    for (i, c) in n.children().iter().enumerate() {
        if let ANode::Element(e) = c {
            path.push(i);
            out.push((path.clone(), sc.clone()));
            let inner = scope::push(sc, &e.decls);
            element_paths(c, &inner, path, out);
            path.pop();
        }
    }
}

fn at<'a>(n: &'a ANode, path: &[usize]) -> &'a ANode {
    let mut cur = n;
    for i in path {
        cur = &cur.children()[*i];
    }
    cur
}

impl Property for C01 {
    fn id(&self) -> &'static str {
        "C01"
    }
    fn rule(&self) -> &'static str {
        "case = abstract document / fragment / unattached element in the XML-representable, well-scoped domain (full XML Char alphabet incl. TAB LF CR < & > quotes ]]> non-BMP; shadowing, several prefixes per namespace, xmlns=\"\" undeclaration), built by one of three routes (creation API, creation in a generated construction order with moves, parse of a generated rendering); to_string of the root - or of a non-root element - must succeed, be accepted by parse / parse_fragment, read back equal to the source abstract tree (kinds, order, expanded names, attribute sets with exact values, character data, comments, PIs, per-element declaration maps; for a sub-element the top declarations must equal the model's in-scope bindings) and be deep_equal to the original. Non-trivial = >= 3 nodes and at least one escaping-relevant character or namespace declaration. Distinct by hash of the abstract tree and route."
    }
    fn plans(&self, tier: Tier) -> Vec<Plan> {
        let mk = |name: &'static str, cases, variant, max_nodes| Plan {
            name,
            kind: PlanKind::Random { cases, max_len: 1200 },
            knobs: Knobs { max_nodes, variant, ..Default::default() },
        };
        match tier {
            Tier::Quick => vec![mk("whole", 40_000, 0, 30), mk("subtree", 20_000, 1, 30)],
            Tier::Thorough => vec![mk("whole", 1_200_000, 0, 30), mk("whole-big", 80_000, 0, 120), mk("subtree", 600_000, 1, 30)],
        }
    }

    fn check(&self, src: &mut Src, ctx: &mut Ctx) -> Verdict {
        let mut o = TreeOpts::xml(ctx.knobs.max_nodes.max(3));
        o.odd_uris = true;
        let doc = match src.weighted(&[5, 3, 2]) {
            0 => gen::gen_document(src, &o),
            1 => gen::gen_fragment(src, &o),
            _ => gen::gen_element_tree(src, &o),
        };
        let mut xot = Xot::new();
        let root = match build_by_route(&mut xot, &doc, src, ctx) {
            Ok(r) => r,
            Err(e) => {
                if e.starts_with("harness: rendering not accepted") {
                    // C02's business (a well-formed rendering rejected)
                    ctx.label("rendering_rejected");
                    return Verdict::Pass;
                }
                if e.starts_with("no usable prefix") || e.starts_with("cannot spell") {
                    ctx.label("unrenderable");
                    return Verdict::Pass;
                }
                return Verdict::Fail(format!("harness: cannot build: {}", e));
            }
        };
        ctx.fingerprint(&doc);
        ctx.rendering(|| doc.show());
        ctx.nontrivial = doc.count() >= 3 && (has_special_chars(&doc) || has_decls(&doc));
        let r: Result<(), String> = (|| {
            if ctx.knobs.variant == 0 {
                let s = guarded(|| xot.to_string(root))
                    .map_err(|p| format!("to_string panicked: {}", p))?
                    .map_err(|e| format!("to_string failed on a representable, well-scoped tree: {}", e))?;
                let as_doc = !matches!(doc, ANode::Document(_)) || is_well_formed_document(&doc);
                let re = guarded(|| if as_doc { xot.parse(&s) } else { xot.parse_fragment(&s) })
                    .map_err(|p| format!("parsing the output panicked: {}", p))?
                    .map_err(|e| format!("the serialisation {:?} is not accepted by the parser: {}", s, e))?;
                let want = match &doc {
                    ANode::Document(_) => doc.clone(),
                    other => ANode::Document(vec![other.clone()]),
                };
                let got = bridge::read(&xot, re)?;
                same_tree(&got, &want, Cmp::content()).map_err(|e| format!("output {:?} reparses differently: {}", s, e))?;
                // second, independent reading of the same output (serializer and parser defects cannot cancel here)
                let ind = if as_doc { crate::indep::xmltok::read_xml_document(&s) } else { crate::indep::xmltok::read_document(&s) }.map_err(|e| format!("output {:?} is not well-formed for an independent reader: {}", s, e))?;
                same_tree(&ind, &want, Cmp::content()).map_err(|e| format!("output {:?} read by an independent reader differs: {}", s, e))?;
                let orig_cmp = match &doc {
                    ANode::Document(_) => root,
                    _ => root,
                };
                let re_cmp = match &doc {
                    ANode::Document(_) => re,
                    _ => xot.document_element(re).map_err(|e| e.to_string())?,
                };
                if !xot.deep_equal(orig_cmp, re_cmp) {
                    return Err(format!("deep_equal(original, reparsed) is false although the read-backs agree (output {:?})", s));
                }
            } else {
                // a non-root element serialised on its own
                let mut paths = vec![];
                let top_scope = match &doc {
                    ANode::Element(e) => scope::push(&scope::base_scope(), &e.decls),
                    _ => scope::base_scope(),
                };
                element_paths(&doc, &top_scope, &mut vec![], &mut paths);
                let top_paths: Vec<&(Vec<usize>, Scope)> = paths.iter().filter(|(p, _)| p.len() >= 2 || !matches!(doc, ANode::Document(_))).collect();
                if top_paths.is_empty() {
                    ctx.nontrivial = false;
                    return Ok(());
                }
                let (path, parent_scope) = top_paths[src.choice_big(top_paths.len())];
                let mut node = root;
                for i in path {
                    node = xot.children(node).take(100_000).nth(*i).ok_or("harness: path")?;
                }
                let s = guarded(|| xot.to_string(node))
                    .map_err(|p| format!("to_string(sub-element) panicked: {}", p))?
                    .map_err(|e| format!("to_string of a sub-element of a well-scoped tree failed: {}", e))?;
                let re = guarded(|| xot.parse(&s))
                    .map_err(|p| format!("parsing the output panicked: {}", p))?
                    .map_err(|e| format!("the serialisation {:?} of a sub-element is not accepted: {}", s, e))?;
                let e = match at(&doc, path) {
                    ANode::Element(e) => e.clone(),
                    _ => return Err("harness: not an element".into()),
                };
                // expected top declarations: own ones plus every inherited in-scope binding
                let mut decls = e.decls.clone();
                for (p, u) in parent_scope.iter() {
                    if p == "xml" || decls.iter().any(|(dp, _)| dp == p) {
                        continue;
                    }
                    decls.push((p.clone(), u.clone()));
                }
                let want = ANode::Document(vec![ANode::Element(AElem { decls, ..e })]);
                let got = bridge::read(&xot, re)?;
                same_tree(&got, &want, Cmp::content()).map_err(|er| format!("sub-element output {:?} reparses differently: {}", s, er))?;
                let re_el = xot.document_element(re).map_err(|e| e.to_string())?;
                if !xot.deep_equal(node, re_el) {
                    return Err(format!("deep_equal(sub-element, reparsed) is false (output {:?})", s));
                }
            }
            Ok(())
        })();
        match r {
            Ok(()) => Verdict::Pass,
            Err(e) => Verdict::Fail(e),
        }
    }
}
