//! C01 — serialise-then-parse returns the same tree.

use xot::{Node, Xot};

use crate::bridge;
use crate::engine::runner::guarded;
use crate::engine::{Ctx, Knobs, Plan, PlanKind, Property, Src, Tier, Verdict};
use crate::gen::render::{self, Style};
use crate::gen::{self, TreeOpts};
use crate::model::scope::{self, Scope};
use crate::model::{AElem, ANode};
use crate::props::common::{has_decls, has_special_chars, same_tree, Cmp};

pub struct C01;

/// build the abstract tree by one of three routes; returns the root
pub fn build_by_route(xot: &mut Xot, doc: &ANode, src: &mut Src, ctx: &mut Ctx) -> Result<Node, String> {
    match src.choice(3) {
        0 => {
            ctx.label("route_creation");
            let mut hs = vec![];
            bridge::build(xot, doc, &mut hs)
        }
        1 => {
            ctx.label("route_creation_and_moves");
            let mut orders = vec![];
            bridge::build_ordered(xot, doc, src, &mut orders)
        }
        _ => {
            ctx.label("route_parse");
            let fragment = !is_well_formed_document(doc);
            let st = Style { fragment, ..Style::rich() };
            let text = match doc {
                ANode::Document(_) => render::render(src, doc, st)?.text,
                _ => render::render(src, doc, Style { fragment: false, prolog: false, ..Style::rich() })?.text,
            };
            let root = if fragment && matches!(doc, ANode::Document(_)) {
                xot.parse_fragment(&text).map_err(|e| format!("harness: rendering not accepted: {} ({:?})", e, text))?
            } else {
                xot.parse(&text).map_err(|e| format!("harness: rendering not accepted: {} ({:?})", e, text))?
            };
            match doc {
                ANode::Document(_) => Ok(root),
                _ => xot.document_element(root).map_err(|e| e.to_string()),
            }
        }
    }
}

pub fn is_well_formed_document(doc: &ANode) -> bool {
    match doc {
        ANode::Document(ch) => {
            ch.iter().filter(|c| matches!(c, ANode::Element(_))).count() == 1 && !ch.iter().any(|c| c.is_text())
        }
        _ => false,
    }
}

/// all element paths (child indices) of a tree, with the scope in force at the parent
fn element_paths(n: &ANode, sc: &Scope, path: &mut Vec<usize>, out: &mut Vec<(Vec<usize>, Scope)>) {
    for (i, c) in n.children().iter().enumerate() {
        if let ANode::Element(e) = c {
            path.push(i);
            out.push((path.clone(), sc.clone()));
            let inner = scope::push(sc, &e.decls);
            element_paths(c, &inner, path, out);
            path.pop();
        }
    }
}

fn at<'a>(n: &'a ANode, path: &[usize]) -> &'a ANode {
    let mut cur = n;
    for i in path {
        cur = &cur.children()[*i];
    }
    cur
}

impl Property for C01 {
    fn id(&self) -> &'static str {
        "C01"
    }
    fn rule(&self) -> &'static str {
        "case = abstract document / fragment / unattached element in the XML-representable, well-scoped domain (full XML Char alphabet incl. TAB LF CR < & > quotes ]]> non-BMP; shadowing, several prefixes per namespace, xmlns=\"\" undeclaration), built by one of three routes (creation API, creation in a generated construction order with moves, parse of a generated rendering); to_string of the root - or of a non-root element - must succeed, be accepted by parse / parse_fragment, read back equal to the source abstract tree (kinds, order, expanded names, attribute sets with exact values, character data, comments, PIs, per-element declaration maps; for a sub-element the top declarations must equal the model's in-scope bindings) and be deep_equal to the original. Plan api-free: trees only the API can build (any subset of declarations: no-namespace elements below a default namespace without xmlns=\"\" of their own, nested; names with missing bindings) - if to_string succeeds the output must be accepted, denote the same names and content for xot's parser and for the independent reader, and be deep_equal. Non-trivial = >= 3 nodes and at least one escaping-relevant character or namespace declaration (api-free: a no-namespace element below a default namespace, serialised). Distinct by hash of the abstract tree and route."
    }
    fn plans(&self, tier: Tier) -> Vec<Plan> {
        let mk = |name: &'static str, cases, variant, max_nodes| Plan {
            name,
            kind: PlanKind::Random { cases, max_len: 1200 },
            knobs: Knobs { max_nodes, variant, ..Default::default() },
        };
        match tier {
            Tier::Quick => vec![mk("whole", 200_000, 0, 30), mk("subtree", 100_000, 1, 30), mk("api-free", 300_000, 2, 24), mk("whole-wide", 100_000, 3, 30)],
            Tier::Thorough => vec![mk("whole", 1_200_000, 0, 30), mk("whole-big", 80_000, 0, 120), mk("subtree", 600_000, 1, 30), mk("api-free", 800_000, 2, 24), mk("whole-wide", 600_000, 3, 30)],
        }
    }

    fn check(&self, src: &mut Src, ctx: &mut Ctx) -> Verdict {
        if ctx.knobs.variant == 2 {
            return self.api_free(src, ctx);
        }
        let mut o = TreeOpts::xml(ctx.knobs.max_nodes.max(3));
        o.odd_uris = true;
        // plan whole-wide: non-ASCII prefixes and local names such as id / lang / space in any namespace
        o.wide_prefixes = ctx.knobs.variant == 3;
        let doc = match src.weighted(&[5, 3, 2]) {
            0 => gen::gen_document(src, &o),
            1 => gen::gen_fragment(src, &o),
            _ => gen::gen_element_tree(src, &o),
        };
        let mut doc = doc;
        if ctx.knobs.variant == 3 && src.ratio(1, 8) {
            // U+FEFF as ordinary character data at the very start (of a fragment, or of the first text below):
            // in a &str there is no encoding signature to strip
            fn first_text(n: &mut ANode) -> bool {
                match n {
                    ANode::Text(t) => {
                        t.insert(0, '\u{feff}');
                        true
                    }
                    _ => n.children_mut().map(|ch| ch.iter_mut().any(first_text)).unwrap_or(false),
                }
            }
            let put = match &mut doc {
                ANode::Document(ch) if !is_well_formed_document(&ANode::Document(ch.clone())) && !matches!(ch.first(), Some(ANode::Text(_))) && src.bool() => {
                    ch.insert(0, ANode::Text("\u{feff}x".into()));
                    true
                }
                other => first_text(other),
            };
            if put {
                ctx.label("text_starting_with_U+FEFF");
            }
        }
        let mut xot = Xot::new();
        let root = match build_by_route(&mut xot, &doc, src, ctx) {
            Ok(r) => r,
            Err(e) => {
                if e.starts_with("harness: rendering not accepted") {
                    // C02's business (a well-formed rendering rejected)
                    ctx.label("rendering_rejected");
                    return Verdict::Pass;
                }
                if e.starts_with("no usable prefix") || e.starts_with("cannot spell") {
                    ctx.label("unrenderable");
                    return Verdict::Pass;
                }
                return Verdict::Fail(format!("harness: cannot build: {}", e));
            }
        };
        ctx.fingerprint(&doc);
        ctx.rendering(|| doc.show());
        ctx.nontrivial = doc.count() >= 3 && (has_special_chars(&doc) || has_decls(&doc));
        let r: Result<(), String> = (|| {
            if ctx.knobs.variant == 0 || ctx.knobs.variant == 3 {
                let s = guarded(|| xot.to_string(root))
                    .map_err(|p| format!("to_string panicked: {}", p))?
                    .map_err(|e| format!("to_string failed on a representable, well-scoped tree: {}", e))?;
                let as_doc = !matches!(doc, ANode::Document(_)) || is_well_formed_document(&doc);
                let re = guarded(|| if as_doc { xot.parse(&s) } else { xot.parse_fragment(&s) })
                    .map_err(|p| format!("parsing the output panicked: {}", p))?
                    .map_err(|e| format!("the serialisation {:?} is not accepted by the parser: {}", s, e))?;
                let want = match &doc {
                    ANode::Document(_) => doc.clone(),
                    other => ANode::Document(vec![other.clone()]),
                };
                let got = bridge::read(&xot, re)?;
                same_tree(&got, &want, Cmp::content()).map_err(|e| format!("output {:?} reparses differently: {}", s, e))?;
                // second, independent reading of the same output (serializer and parser defects cannot cancel here)
                let ind = if as_doc { crate::indep::xmltok::read_xml_document(&s) } else { crate::indep::xmltok::read_document(&s) }.map_err(|e| format!("output {:?} is not well-formed for an independent reader: {}", s, e))?;
                same_tree(&ind, &want, Cmp::content()).map_err(|e| format!("output {:?} read by an independent reader differs: {}", s, e))?;
                let orig_cmp = match &doc {
                    ANode::Document(_) => root,
                    _ => root,
                };
                let re_cmp = match &doc {
                    ANode::Document(_) => re,
                    _ => xot.document_element(re).map_err(|e| e.to_string())?,
                };
                if !xot.deep_equal(orig_cmp, re_cmp) {
                    return Err(format!("deep_equal(original, reparsed) is false although the read-backs agree (output {:?})", s));
                }
            } else {
                // a non-root element serialised on its own
                let mut paths = vec![];
                let top_scope = match &doc {
                    ANode::Element(e) => scope::push(&scope::base_scope(), &e.decls),
                    _ => scope::base_scope(),
                };
                element_paths(&doc, &top_scope, &mut vec![], &mut paths);
                let top_paths: Vec<&(Vec<usize>, Scope)> = paths.iter().filter(|(p, _)| p.len() >= 2 || !matches!(doc, ANode::Document(_))).collect();
                if top_paths.is_empty() {
                    ctx.nontrivial = false;
                    return Ok(());
                }
                let (path, parent_scope) = top_paths[src.choice_big(top_paths.len())];
                let mut node = root;
                for i in path {
                    node = xot.children(node).take(100_000).nth(*i).ok_or("harness: path")?;
                }
                let s = guarded(|| xot.to_string(node))
                    .map_err(|p| format!("to_string(sub-element) panicked: {}", p))?
                    .map_err(|e| format!("to_string of a sub-element of a well-scoped tree failed: {}", e))?;
                let re = guarded(|| xot.parse(&s))
                    .map_err(|p| format!("parsing the output panicked: {}", p))?
                    .map_err(|e| format!("the serialisation {:?} of a sub-element is not accepted: {}", s, e))?;
                let e = match at(&doc, path) {
                    ANode::Element(e) => e.clone(),
                    _ => return Err("harness: not an element".into()),
                };
                // expected top declarations: own ones plus every inherited in-scope binding
                let mut decls = e.decls.clone();
                for (p, u) in parent_scope.iter() {
                    if p == "xml" || decls.iter().any(|(dp, _)| dp == p) {
                        continue;
                    }
                    decls.push((p.clone(), u.clone()));
                }
                let want = ANode::Document(vec![ANode::Element(AElem { decls, ..e })]);
                let got = bridge::read(&xot, re)?;
                same_tree(&got, &want, Cmp::content()).map_err(|er| format!("sub-element output {:?} reparses differently: {}", s, er))?;
                let re_el = xot.document_element(re).map_err(|e| e.to_string())?;
                if !xot.deep_equal(node, re_el) {
                    return Err(format!("deep_equal(sub-element, reparsed) is false (output {:?})", s));
                }
            }
            Ok(())
        })();
        match r {
            Ok(()) => Verdict::Pass,
            Err(e) => Verdict::Fail(e),
        }
    }
}

impl C01 {
    /// trees only the API can build: any subset of declarations (Scoping::Free). Whatever
    /// to_string accepts must come back with the same names and content.
    fn api_free(&self, src: &mut Src, ctx: &mut Ctx) -> Verdict {
        let mut o = TreeOpts::xml(ctx.knobs.max_nodes.max(3));
        o.alpha = gen::Alpha::Tiny;
        o.attr_alpha = gen::Alpha::Tiny;
        // mostly: a well-scoped tree from which the xmlns=\"\" declarations that protect
        // no-namespace elements are stripped again (the layout a parser never produces);
        // sometimes: any subset of declarations
        let strip = src.ratio(3, 4);
        o.scoping = if strip { gen::Scoping::Well } else { gen::Scoping::Free };
        o.redundant_decls = src.bool();
        o.max_depth = 7;
        let mut doc = match src.weighted(&[4, 2, 3]) {
            0 => gen::gen_document(src, &o),
            1 => gen::gen_fragment(src, &o),
            _ => gen::gen_element_tree(src, &o),
        };
        if strip {
            fn strip_undeclarations(n: &mut ANode, src: &mut Src) {
                if let ANode::Element(e) = n {
                    if e.name.ns.is_empty() && src.ratio(3, 4) {
                        e.decls.retain(|(p, u)| !(p.is_empty() && u.is_empty()));
                    }
                    // more default namespaces: a namespaced element may declare its own
                    // namespace as the default as well
                    if !e.name.ns.is_empty() && !e.decls.iter().any(|(p, _)| p.is_empty()) && src.ratio(1, 3) {
                        e.decls.push((String::new(), e.name.ns.clone()));
                    }
                }
                if let Some(ch) = n.children_mut() {
                    for c in ch.iter_mut() {
                        strip_undeclarations(c, src);
                    }
                }
            }
            strip_undeclarations(&mut doc, src);
        }
        let mut xot = Xot::new();
        let mut hs = vec![];
        let root = match bridge::build(&mut xot, &doc, &mut hs) {
            Ok(r) => r,
            Err(e) => return Verdict::Fail(format!("harness: {}", e)),
        };
        ctx.fingerprint(&doc);
        ctx.rendering(|| doc.show());
        fn risky(n: &ANode, default: bool) -> bool {
            match n {
                ANode::Element(e) => {
                    let mut d = default;
                    for (p, u) in &e.decls {
                        if p.is_empty() {
                            d = !u.is_empty();
                        }
                    }
                    (e.name.ns.is_empty() && d) || e.children.iter().any(|c| risky(c, d))
                }
                _ => n.children().iter().any(|c| risky(c, default)),
            }
        }
        // "whose namespaced names have a usable prefix in scope": Some(true) = every namespaced
        // element name has a prefix (or the default namespace) bound to its namespace and every
        // namespaced attribute a non-empty one, where a no-namespace element below a default
        // namespace ends that default for its subtree (the serializer has to write xmlns=\"\"
        // there); None = a no-namespace element declares a default namespace itself (no text
        // can express that tree)
        fn usable(n: &ANode, sc: &Scope) -> Option<bool> {
            match n {
                ANode::Element(e) => {
                    let mut inner = scope::push(sc, &e.decls);
                    if e.decls.iter().any(|(p, u)| !p.is_empty() && u.is_empty()) {
                        return None;
                    }
                    if e.name.ns.is_empty() {
                        if e.decls.iter().any(|(p, u)| p.is_empty() && !u.is_empty()) {
                            return None;
                        }
                        inner.remove("");
                    } else if scope::prefixes_for(&inner, &e.name.ns).is_empty() {
                        return Some(false);
                    }
                    for (q, _) in &e.attrs {
                        if !q.ns.is_empty() && !scope::prefixes_for(&inner, &q.ns).iter().any(|p| !p.is_empty()) {
                            return Some(false);
                        }
                    }
                    for c in &e.children {
                        match usable(c, &inner) {
                            Some(true) => {}
                            other => return other,
                        }
                    }
                    Some(true)
                }
                _ => {
                    for c in n.children() {
                        match usable(c, sc) {
                            Some(true) => {}
                            other => return other,
                        }
                    }
                    Some(true)
                }
            }
        }
        let must = usable(&doc, &scope::base_scope());
        let r: Result<(), String> = (|| {
            let s = match guarded(|| xot.to_string(root)).map_err(|p| format!("to_string panicked: {}", p))? {
                Ok(s) => s,
                Err(e) => {
                    if must == Some(true) {
                        return Err(format!("to_string failed ({}) although every namespaced name has a usable prefix in scope", e));
                    }
                    ctx.label("refused");
                    return Ok(());
                }
            };
            ctx.nontrivial = doc.count() >= 3 && risky(&doc, false);
            let as_doc = !matches!(doc, ANode::Document(_)) || is_well_formed_document(&doc);
            let re = guarded(|| if as_doc { xot.parse(&s) } else { xot.parse_fragment(&s) })
                .map_err(|p| format!("parsing the output panicked: {}", p))?
                .map_err(|e| format!("the serialisation {:?} is not accepted by the parser: {}", s, e))?;
            let want = match &doc {
                ANode::Document(_) => doc.clone(),
                other => ANode::Document(vec![other.clone()]),
            };
            let got = bridge::read(&xot, re)?;
            same_tree(&got, &want, Cmp::no_decls()).map_err(|e| format!("output {:?} reparses differently: {}", s, e))?;
            let ind = if as_doc { crate::indep::xmltok::read_xml_document(&s) } else { crate::indep::xmltok::read_document(&s) }
                .map_err(|e| format!("output {:?} is not well-formed for an independent reader: {}", s, e))?;
            same_tree(&ind, &want, Cmp::no_decls()).map_err(|e| format!("output {:?} read by an independent reader differs: {}", s, e))?;
            let re_cmp = match &doc {
                ANode::Document(_) => re,
                _ => xot.document_element(re).map_err(|e| e.to_string())?,
            };
            if !xot.deep_equal(root, re_cmp) {
                return Err(format!("deep_equal(original, reparsed) is false although the read-backs agree (output {:?})", s));
            }
            Ok(())
        })();
        match r {
            Ok(()) => Verdict::Pass,
            Err(e) => Verdict::Fail(e),
        }
    }
}
