//! Helpers shared by several oracles.

use std::collections::BTreeMap;

use crate::model::{ANode, QName};

#[derive(Clone, Copy)]
pub struct Cmp {
    /// compare per-element declaration maps
    pub decls: bool,
    /// attribute order matters
    pub attr_order: bool,
    /// declaration order matters
    pub decl_order: bool,
}

impl Cmp {
    pub fn content() -> Self {
        Cmp { decls: true, attr_order: false, decl_order: false }
    }
    pub fn exact() -> Self {
        Cmp { decls: true, attr_order: true, decl_order: true }
    }
    pub fn no_decls() -> Self {
        Cmp { decls: false, attr_order: false, decl_order: false }
    }
}

/// Compare two abstract trees; Err describes the first difference with a path.
pub fn same_tree(got: &ANode, want: &ANode, c: Cmp) -> Result<(), String> {
    same_at(got, want, c, "/")
}

fn same_at(got: &ANode, want: &ANode, c: Cmp, path: &str) -> Result<(), String> {
    match (got, want) {
        (ANode::Document(a), ANode::Document(b)) => kids(a, b, c, path),
        (ANode::Element(a), ANode::Element(b)) => {
            if a.name != b.name {
                return Err(format!("{}: element name {} instead of {}", path, a.name.show(), b.name.show()));
            }
            if c.attr_order {
                if a.attrs != b.attrs {
                    return Err(format!("{}<{}>: attributes {:?} instead of {:?}", path, b.name.show(), a.attrs, b.attrs));
                }
            } else {
                let ma: BTreeMap<&QName, &String> = a.attrs.iter().map(|(k, v)| (k, v)).collect();
                let mb: BTreeMap<&QName, &String> = b.attrs.iter().map(|(k, v)| (k, v)).collect();
                if ma != mb || a.attrs.len() != b.attrs.len() {
                    return Err(format!("{}<{}>: attributes {:?} instead of {:?}", path, b.name.show(), a.attrs, b.attrs));
                }
            }
            if c.decls {
                if c.decl_order {
                    if a.decls != b.decls {
                        return Err(format!("{}<{}>: declarations {:?} instead of {:?}", path, b.name.show(), a.decls, b.decls));
                    }
                } else {
                    let ma: BTreeMap<&String, &String> = a.decls.iter().map(|(k, v)| (k, v)).collect();
                    let mb: BTreeMap<&String, &String> = b.decls.iter().map(|(k, v)| (k, v)).collect();
                    if ma != mb || a.decls.len() != b.decls.len() {
                        return Err(format!("{}<{}>: declarations {:?} instead of {:?}", path, b.name.show(), a.decls, b.decls));
                    }
                }
            }
            kids(&a.children, &b.children, c, &format!("{}{}/", path, b.name.local))
        }
        (a, b) => {
            if a != b {
                Err(format!("{}: {} instead of {}", path, a.show(), b.show()))
            } else {
                Ok(())
            }
        }
    }
}

fn kids(a: &[ANode], b: &[ANode], c: Cmp, path: &str) -> Result<(), String> {
    if a.len() != b.len() {
        return Err(format!(
            "{}: {} children instead of {}: [{}] instead of [{}]",
            path,
            a.len(),
            b.len(),
            a.iter().map(|n| n.show()).collect::<Vec<_>>().join(","),
            b.iter().map(|n| n.show()).collect::<Vec<_>>().join(",")
        ));
    }
    for (i, (x, y)) in a.iter().zip(b.iter()).enumerate() {
        same_at(x, y, c, &format!("{}[{}]", path, i))?;
    }
    Ok(())
}

/// features of content that matter for escaping
pub fn has_special_chars(n: &ANode) -> bool {
    fn s(t: &str) -> bool {
        t.chars().any(|c| matches!(c, '<' | '&' | '>' | '"' | '\'' | '\t' | '\n' | '\r' | ']') || (c as u32) > 0x7f)
    }
    match n {
        ANode::Document(c) => c.iter().any(has_special_chars),
        ANode::Element(e) => e.attrs.iter().any(|(_, v)| s(v)) || e.children.iter().any(has_special_chars),
        ANode::Text(t) | ANode::Comment(t) => s(t),
        ANode::PI(_, d) => d.as_deref().map(s).unwrap_or(false),
        ANode::Attribute(_, v) => s(v),
        ANode::Namespace(..) => false,
    }
}

pub fn has_decls(n: &ANode) -> bool {
    match n {
        ANode::Document(c) => c.iter().any(has_decls),
        ANode::Element(e) => !e.decls.is_empty() || e.children.iter().any(has_decls),
        _ => false,
    }
}
