//! C19 — HTML5 serialisation follows the HTML rules and never panics.

use xot::output::html5::Parameters;
use xot::output::Indentation;
use xot::{NameId, Node, Xot};

use crate::bridge::{self, name_id};
use crate::engine::runner::guarded;
use crate::engine::{Ctx, Knobs, Plan, PlanKind, Property, Src, Tier, Verdict};
use crate::gen::{self, Alpha, Names, Scoping, TreeOpts, MATHML, SVG, XHTML};
use crate::indep::htmltok::{self, Tok};
use crate::indep::xmltok;
use crate::model::scope::{self, Scope};
use crate::model::{AElem, ANode, QName};
use crate::props::c14::element_names;

pub struct C19;

const VOID: &[&str] = &["area", "base", "br", "col", "embed", "hr", "img", "input", "link", "meta", "param", "source", "track", "wbr"];
/// void only in xot's extended (HTML 4) list: kept out of the generated names
const AMBIGUOUS: &[&str] = &["basefont", "frame", "isindex", "keygen", "command"];

fn is_html_ns(ns: &str) -> bool {
    ns.is_empty() || ns == XHTML
}
fn is_void(q: &QName) -> bool {
    is_html_ns(&q.ns) && VOID.contains(&q.local.to_ascii_lowercase().as_str())
}
fn is_raw_text(q: &QName) -> bool {
    is_html_ns(&q.ns) && matches!(q.local.to_ascii_lowercase().as_str(), "script" | "style")
}

/// make the tree fit HTML's own structure rules where the statement relies on them
fn tidy(n: &mut ANode) {
    if let ANode::Element(e) = n {
        let lower = e.name.local.to_ascii_lowercase();
        if AMBIGUOUS.contains(&lower.as_str()) {
            e.name.local = format!("x-{}", e.name.local);
        }
        if !is_html_ns(&e.name.ns) && matches!(lower.as_str(), "script" | "style") {
            e.name.local = format!("x-{}", e.name.local);
        }
        if is_void(&e.name) {
            e.children.clear();
        }
        if is_raw_text(&e.name) {
            if e.children.iter().any(|c| matches!(c, ANode::Element(_))) {
                // script / style WITH element children (HTML has no such thing, xot's tree has):
                // direct text stays raw, text further down must be escaped again. To keep the
                // output tokenizable the direct text holds no '<', and no raw-text element nests.
                fn no_nested_raw(n: &mut ANode) {
                    if let ANode::Element(e) = n {
                        if is_raw_text(&e.name) {
                            e.name.local = format!("x-{}", e.name.local);
                        }
                    }
                    if let Some(ch) = n.children_mut() {
                        for c in ch.iter_mut() {
                            no_nested_raw(c);
                        }
                    }
                }
                e.children.retain(|c| matches!(c, ANode::Element(_) | ANode::Text(_)));
                for c in e.children.iter_mut() {
                    match c {
                        ANode::Text(t) => *t = t.replace('<', "("),
                        other => no_nested_raw(other),
                    }
                }
            } else {
                // raw text elements hold text only, and text that cannot close the element early
                let mut t = String::new();
                for c in &e.children {
                    if let ANode::Text(s) = c {
                        t.push_str(s);
                    }
                }
                let t = t.replace("</", "< /");
                e.children = if t.is_empty() { vec![] } else { vec![ANode::Text(t)] };
            }
        }
    }
    if let Some(ch) = n.children_mut() {
        for c in ch.iter_mut() {
            tidy(c);
        }
    }
}

struct Al<'a> {
    toks: &'a [Tok],
    i: usize,
    indent: bool,
    cdata: &'a [QName],
    /// tag names, as written, of the elements that are open
    open: Vec<String>,
}

impl<'a> Al<'a> {
    fn skip_ws(&mut self) {
        if !self.indent {
            return;
        }
        while let Some(Tok::Text(t)) = self.toks.get(self.i) {
            if t.chars().all(|c| c == ' ' || c == '\n') {
                self.i += 1;
            } else {
                break;
            }
        }
    }

    fn node(&mut self, n: &ANode, parent: Option<&AElem>, sc: &Scope) -> Result<(), String> {
        match n {
            ANode::Element(e) => {
                self.skip_ws();
                let (name, attrs, empty) = match self.toks.get(self.i) {
                    Some(Tok::Start { name, attrs, empty }) => (name.clone(), attrs.clone(), *empty),
                    other => return Err(format!("expected the start tag of {}, found {:?}", e.name.show(), other)),
                };
                self.i += 1;
                let mut decls = vec![];
                for (an, av) in &attrs {
                    if an == "xmlns" {
                        decls.push((String::new(), xmltok::unescape(av).unwrap_or_default()));
                    } else if let Some(p) = an.strip_prefix("xmlns:") {
                        decls.push((p.to_string(), xmltok::unescape(av).unwrap_or_default()));
                    }
                    // attribute values: no raw double quote, every & starts a reference
                    if av.contains('"') {
                        return Err(format!("attribute {} of <{}> contains a raw double quote: {:?}", an, name, av));
                    }
                    if !htmltok::ampersands_ok(av) {
                        return Err(format!("attribute {} of <{}> contains a raw '&': {:?}", an, name, av));
                    }
                }
                let inner = scope::push(sc, &decls);
                if empty {
                    return Err(format!("<{}/> is self-closed", name));
                }
                let (p, l) = xmltok::split_qname(&name);
                if l != e.name.local {
                    return Err(format!("expected element {}, found tag <{}>", e.name.show(), name));
                }
                if is_html_ns(&e.name.ns) {
                    if !p.is_empty() {
                        return Err(format!("HTML element {} is written with a prefix: <{}>", e.name.show(), name));
                    }
                } else if e.name.ns == SVG || e.name.ns == MATHML {
                    if !p.is_empty() {
                        return Err(format!("{} element is written with a prefix: <{}>", e.name.ns, name));
                    }
                    if inner.get("").map(|s| s.as_str()) != Some(e.name.ns.as_str()) {
                        return Err(format!(
                            "<{}> is in {} but the default namespace in force there is {:?}",
                            name,
                            e.name.ns,
                            inner.get("")
                        ));
                    }
                }
                // nothing is stated about how elements in foreign namespaces are spelled
                if is_void(&e.name) {
                    if !e.children.is_empty() {
                        // a void element that HAS children in the tree (HTML knows no such thing): they
                        // are written after its start tag, and there is still no end tag
                        self.children(&e.children, Some(e), &inner)?;
                        self.skip_ws();
                    }
                    if let Some(Tok::End(en)) = self.toks.get(self.i) {
                        // (an end tag of the same name may belong to the parent; then a surplus
                        // end tag shows up one level further out)
                        if *en == name && self.open.last() != Some(&name) {
                            return Err(format!("void element <{}> has an end tag", name));
                        }
                    }
                    return Ok(());
                }
                self.open.push(name.clone());
                if is_raw_text(&e.name) {
                    let got = match self.toks.get(self.i) {
                        Some(Tok::CData(t)) if t.starts_with("\u{0}RAW") => {
                            self.i += 1;
                            t["\u{0}RAW".len()..].to_string()
                        }
                        _ => String::new(),
                    };
                    if e.children.iter().any(|c| matches!(c, ANode::Element(_))) {
                        // element children inside script / style: read the raw content as markup
                        // again; only the direct text children are raw
                        let toks = htmltok::tokenize(&got, &|_, _| false).map_err(|er| format!("content {:?} of <{}> cannot be tokenized: {}", got, name, er))?;
                        let mut sub = Al { toks: &toks, i: 0, indent: self.indent, cdata: self.cdata, open: vec![] };
                        sub.children(&e.children, Some(e), &inner).map_err(|er| format!("inside <{}>: {}", name, er))?;
                        sub.skip_ws();
                        if sub.i != toks.len() {
                            return Err(format!("inside <{}>: surplus output {:?}", name, &toks[sub.i..]));
                        }
                    } else {
                        let want: String = e.children.iter().map(|c| c.string_value()).collect();
                        if !self.indent && got != want {
                            return Err(format!("raw text of <{}> is {:?}, the text is {:?}", name, got, want));
                        }
                    }
                } else {
                    self.children(&e.children, Some(e), &inner)?;
                }
                self.skip_ws();
                self.open.pop();
                match self.toks.get(self.i) {
                    Some(Tok::End(en)) if *en == name => {
                        self.i += 1;
                        Ok(())
                    }
                    other => Err(format!("<{}> has no explicit end tag (found {:?})", name, other)),
                }
            }
            ANode::Text(t) => {
                // consecutive Text / CDATA tokens make up the text
                let in_cdata_element = parent.map(|p| self.cdata.contains(&p.name)).unwrap_or(false);
                let raw_parent = parent.map(|p| is_raw_text(&p.name)).unwrap_or(false);
                let mut got = String::new();
                let mut any = false;
                loop {
                    match self.toks.get(self.i) {
                        Some(Tok::Text(raw)) if raw_parent => {
                            // direct text child of script / style: written as it is
                            got.push_str(raw);
                            self.i += 1;
                            any = true;
                        }
                        Some(Tok::Text(raw)) => {
                            if !htmltok::ampersands_ok(raw) {
                                return Err(format!("a raw '&' from text outside script/style/CDATA: {:?}", raw));
                            }
                            got.push_str(&xmltok::unescape(raw).map_err(|e| format!("text {:?}: {}", raw, e))?);
                            self.i += 1;
                            any = true;
                        }
                        Some(Tok::CData(raw)) if !raw.starts_with("\u{0}RAW") => {
                            if !in_cdata_element {
                                return Err(format!("a CDATA section {:?} in an element that is not a requested CDATA-section element", raw));
                            }
                            got.push_str(raw);
                            self.i += 1;
                            any = true;
                        }
                        _ => break,
                    }
                }
                if !self.indent && (got != *t) && !(t.is_empty() && !any) {
                    return Err(format!("text {:?} is written so that it reads {:?}", t, got));
                }
                Ok(())
            }
            ANode::Comment(c) => {
                self.skip_ws();
                match self.toks.get(self.i) {
                    Some(Tok::Comment(g)) if g == c => {
                        self.i += 1;
                        Ok(())
                    }
                    other => Err(format!("expected comment {:?}, found {:?}", c, other)),
                }
            }
            ANode::PI(t, d) => {
                self.skip_ws();
                match self.toks.get(self.i) {
                    Some(Tok::PI(gt, gd)) if gt == t && gd == d => {
                        self.i += 1;
                        Ok(())
                    }
                    other => Err(format!("expected PI {} {:?}, found {:?}", t, d, other)),
                }
            }
            _ => Ok(()),
        }
    }

    fn children(&mut self, ch: &[ANode], parent: Option<&AElem>, sc: &Scope) -> Result<(), String> {
        // adjacent model text nodes are one run in the output
        let mut k = 0;
        while k < ch.len() {
            if let ANode::Text(_) = &ch[k] {
                let mut t = String::new();
                while k < ch.len() {
                    if let ANode::Text(s) = &ch[k] {
                        t.push_str(s);
                        k += 1;
                    } else {
                        break;
                    }
                }
                self.node(&ANode::Text(t), parent, sc)?;
            } else {
                self.node(&ch[k], parent, sc)?;
                k += 1;
            }
        }
        Ok(())
    }
}

fn pi_with_gt(n: &ANode) -> bool {
    match n {
        ANode::PI(_, Some(d)) => d.contains('>'),
        _ => n.children().iter().any(pi_with_gt),
    }
}

impl Property for C19 {
    fn id(&self) -> &'static str {
        "C19"
    }
    fn rule(&self) -> &'static str {
        "case = tree mixing HTML element names in any letter case (void, phrasing, formatted, script/style, unknown) in no namespace, the real XHTML namespace, MathML, SVG and foreign namespaces (incl. the https look-alike of the XHTML URI), text with < & quotes and U+00A0, attributes incl. boolean-looking ones, PIs with and without '>', text directly under a document node, or one detached node of any kind; parameters: indentation on/off, suppress list, CDATA-section elements. Oracle: never a panic; Ok output starts with <!DOCTYPE html>; an independent HTML-flavoured tokenizer is aligned with the model in document order: no-namespace / XHTML elements unprefixed, never self-closed, end tag iff not void; MathML / SVG elements unprefixed with that default namespace in force; '<' and '&' from text raw only inside script/style or a requested CDATA section; no raw '\"' or '&' in attribute values; a PI whose data contains '>' makes the call fail. Non-trivial = at least one void or raw-text element and one element in XHTML / MathML / SVG. Distinct by hash of (tree, parameters)."
    }
    fn assumptions(&self) -> Vec<&'static str> {
        vec![
            "void elements are generated without children; script/style hold either text only (not containing '</') or text and elements, in which case the direct text holds no '<', comments and PIs are dropped and no script/style nests inside (so that the output stays tokenizable); text below an element child of script/style must be escaped again (HTML serialisation algorithm: only text whose PARENT is script/style is raw)",
            "names that are void only in HTML 4 (basefont, frame, isindex) or removed (keygen, command) are not generated",
        ]
    }
    fn plans(&self, tier: Tier) -> Vec<Plan> {
        let mk = |name: &'static str, cases, variant| Plan {
            name,
            kind: PlanKind::Random { cases, max_len: 1200 },
            knobs: Knobs { max_nodes: 24, variant, ..Default::default() },
        };
        match tier {
            Tier::Quick => vec![mk("trees", 300_000, 0), mk("single-nodes", 20_000, 1)],
            Tier::Thorough => vec![mk("trees", 2_500_000, 0), mk("single-nodes", 100_000, 1)],
        }
    }

    fn check(&self, src: &mut Src, ctx: &mut Ctx) -> Verdict {
        let mut o = TreeOpts::xml(ctx.knobs.max_nodes);
        o.names = Names::Html;
        o.alpha = Alpha::NoCtl;
        o.attr_alpha = Alpha::NoCtl;
        o.scoping = if src.bool() { Scoping::Well } else { Scoping::Free };
        o.xml_attrs = true;
        let mut doc = if ctx.knobs.variant == 1 {
            match src.choice(6) {
                0 => ANode::Text(gen::gen_text(src, Alpha::NoCtl, 4)),
                1 => ANode::Comment(gen::gen_comment(src, Alpha::NoCtl)),
                2 => {
                    let (t, d) = gen::gen_pi(src, Alpha::NoCtl);
                    ANode::PI(t, d)
                }
                3 => ANode::Attribute(QName::new("", "checked"), "checked".into()),
                4 => ANode::Namespace("p".into(), XHTML.into()),
                _ => ANode::Document(vec![ANode::Text(gen::gen_text_nonempty(src, Alpha::NoCtl, 4))]),
            }
        } else {
            match src.weighted(&[4, 3, 3]) {
                0 => gen::gen_document(src, &o),
                1 => gen::gen_fragment(src, &o),
                _ => gen::gen_element_tree(src, &o),
            }
        };
        tidy(&mut doc);
        // known finding: the https look-alike of the XHTML namespace URI is treated as XHTML
        const LOOKALIKE: &str = "https://www.w3.org/1999/xhtml";
        fn uses(n: &ANode, uri: &str) -> bool {
            match n {
                ANode::Element(e) => e.name.ns == uri || e.attrs.iter().any(|(q, _)| q.ns == uri) || e.decls.iter().any(|(_, u)| u == uri) || e.children.iter().any(|c| uses(c, uri)),
                _ => n.children().iter().any(|c| uses(c, uri)),
            }
        }
        fn replace_uri(n: &mut ANode, from: &str, to: &str) {
            if let ANode::Element(e) = n {
                if e.name.ns == from {
                    e.name.ns = to.to_string();
                }
                for (q, _) in e.attrs.iter_mut() {
                    if q.ns == from {
                        q.ns = to.to_string();
                    }
                }
                for (_, u) in e.decls.iter_mut() {
                    if u == from {
                        *u = to.to_string();
                    }
                }
            }
            if let Some(ch) = n.children_mut() {
                for c in ch.iter_mut() {
                    replace_uri(c, from, to);
                }
            }
        }
        if uses(&doc, LOOKALIKE) {
            if ctx.exclude("xhtmlHttpsLookalikeTreatedAsXhtml") {
                replace_uri(&mut doc, LOOKALIKE, "urn:f");
            } else {
                ctx.label("https_lookalike_namespace");
            }
        }
        // boolean-looking attributes
        fn add_bool(n: &mut ANode, src: &mut Src) {
            if let ANode::Element(e) = n {
                if src.ratio(1, 6) && !e.attrs.iter().any(|(q, _)| q.local.eq_ignore_ascii_case("checked")) {
                    let v = ["checked", "CHECKED", "x\"y&z"][src.choice(3)];
                    e.attrs.push((QName::new("", "checked"), v.into()));
                }
            }
            if let Some(ch) = n.children_mut() {
                for c in ch.iter_mut() {
                    add_bool(c, src);
                }
            }
        }
        add_bool(&mut doc, src);
        let mut xot = Xot::new();
        let mut names = vec![];
        element_names(&doc, &mut names);
        let pick = |src: &mut Src| -> Vec<QName> {
            if src.ratio(2, 3) {
                vec![]
            } else {
                names.iter().filter(|q| !is_raw_text(q) && src.ratio(1, 3)).cloned().collect()
            }
        };
        let cdata_q = pick(src);
        let suppress_q = pick(src);
        let indent = src.ratio(1, 3);
        // drawn after every earlier decision (saved cases keep their meaning): rename one HTML
        // element to a name HTML treats as raw text / RCDATA but xot must not (the statement
        // allows raw '<' and '&' only inside script and style)
        const RAWISH: &[&str] = &["iframe", "xmp", "noembed", "noframes", "plaintext", "noscript", "IFRAME", "Xmp", "textarea", "title", "template"];
        if src.ratio(1, 4) {
            fn count(n: &ANode) -> usize {
                let own = match n {
                    ANode::Element(e) if (e.name.ns.is_empty() || e.name.ns == XHTML) && !is_void(&e.name) && !is_raw_text(&e.name) => 1,
                    _ => 0,
                };
                own + n.children().iter().map(count).sum::<usize>()
            }
            fn rename(n: &mut ANode, k: &mut usize, to: &str) {
                if let ANode::Element(e) = n {
                    if (e.name.ns.is_empty() || e.name.ns == XHTML) && !is_void(&e.name) && !is_raw_text(&e.name) {
                        if *k == 0 {
                            e.name.local = to.to_string();
                            *k = usize::MAX;
                            return;
                        }
                        *k -= 1;
                    }
                }
                if let Some(ch) = n.children_mut() {
                    for c in ch.iter_mut() {
                        if *k == usize::MAX {
                            return;
                        }
                        rename(c, k, to);
                    }
                }
            }
            let total = count(&doc);
            if total > 0 {
                let mut k = src.choice_big(total);
                let to = RAWISH[src.choice(RAWISH.len())];
                rename(&mut doc, &mut k, to);
                ctx.label("rawish_element_name");
            }
        } else if src.ratio(1, 6) {
            // ... or to a VOID name although it may have children (the tree allows it): the children
            // are written, and the element still gets no end tag
            const VOIDISH: &[&str] = &["br", "HR", "img", "input", "Wbr"];
            fn count(n: &ANode) -> usize {
                let own = match n {
                    ANode::Element(e) if (e.name.ns.is_empty() || e.name.ns == XHTML) && !is_void(&e.name) && !is_raw_text(&e.name) && !e.children.is_empty() && !matches!(e.children.last(), Some(ANode::Text(_))) => 1,
                    _ => 0,
                };
                own + n.children().iter().map(count).sum::<usize>()
            }
            fn rename(n: &mut ANode, k: &mut usize, to: &str) {
                if let ANode::Element(e) = n {
                    // (the last child is not text: without an end tag it would run into a following text sibling)
                    if (e.name.ns.is_empty() || e.name.ns == XHTML) && !is_void(&e.name) && !is_raw_text(&e.name) && !e.children.is_empty() && !matches!(e.children.last(), Some(ANode::Text(_))) {
                        if *k == 0 {
                            e.name.local = to.to_string();
                            *k = usize::MAX;
                            return;
                        }
                        *k -= 1;
                    }
                }
                if let Some(ch) = n.children_mut() {
                    for c in ch.iter_mut() {
                        if *k == usize::MAX {
                            return;
                        }
                        rename(c, k, to);
                    }
                }
            }
            let total = count(&doc);
            if total > 0 {
                let mut k = src.choice_big(total);
                let to = VOIDISH[src.choice(VOIDISH.len())];
                rename(&mut doc, &mut k, to);
                ctx.label("void_element_with_children");
            }
        }
        // (late draw) an attribute value with '&' right before '{' (XSLT's html method leaves that one raw; the statement does not)
        if src.ratio(1, 8) {
            fn add_href(n: &mut ANode) -> bool {
                if let ANode::Element(e) = n {
                    if !e.attrs.iter().any(|(q, _)| q.local == "href") {
                        e.attrs.push((QName::new("", "href"), "?q=1&{x}&amp;y".to_string()));
                        return true;
                    }
                }
                if let Some(ch) = n.children_mut() {
                    for c in ch.iter_mut() {
                        if add_href(c) {
                            return true;
                        }
                    }
                }
                false
            }
            if add_href(&mut doc) {
                ctx.label("attribute_with_amp_brace");
            }
        }
        // (late draw) 34..60 nested block-level wrappers: indentation deeper than any fixed-size buffer
        if src.ratio(1, 25) {
            let depth = 34 + src.choice(27);
            fn wrap_first(n: &mut ANode, depth: usize) -> bool {
                if let ANode::Element(_) = n {
                    let mut inner = std::mem::replace(n, ANode::Text(String::new()));
                    for k in 0..depth {
                        let name = if k % 2 == 0 { "div" } else { "section" };
                        inner = ANode::Element(AElem { name: QName::new("", name), decls: vec![], attrs: vec![], children: vec![inner] });
                    }
                    *n = inner;
                    return true;
                }
                n.children_mut().map(|ch| ch.iter_mut().any(|c| wrap_first(c, depth))).unwrap_or(false)
            }
            if wrap_first(&mut doc, depth) {
                ctx.label("deep_chain_of_block_elements");
            }
        }
        // (late draw) a foreign namespace URI that needs escaping where it is written as an attribute value
        if src.ratio(1, 5) && uses(&doc, "urn:f") {
            replace_uri(&mut doc, "urn:f", "urn:f?a=1&b=\"2\"");
            ctx.label("namespace_uri_needing_escapes");
        }
        let mut hs = vec![];
        let root = match bridge::build(&mut xot, &doc, &mut hs) {
            Ok(r) => r,
            Err(e) => return Verdict::Fail(format!("harness: {}", e)),
        };
        let cdata: Vec<NameId> = cdata_q.iter().map(|q| name_id(&mut xot, q)).collect();
        let suppress: Vec<NameId> = suppress_q.iter().map(|q| name_id(&mut xot, q)).collect();
        let params = Parameters {
            indentation: if indent { Some(Indentation { suppress }) } else { None },
            cdata_section_elements: cdata,
        };
        ctx.fingerprint(&(doc.clone(), format!("{:?}{:?}{}", cdata_q, suppress_q, indent)));
        ctx.rendering(|| format!("{} cdata={:?} suppress={} indent={}", doc.show(), cdata_q.iter().map(|q| q.show()).collect::<Vec<_>>(), suppress_q.len(), indent));
        fn has(n: &ANode, f: &dyn Fn(&AElem) -> bool) -> bool {
            match n {
                ANode::Element(e) => f(e) || e.children.iter().any(|c| has(c, f)),
                _ => n.children().iter().any(|c| has(c, f)),
            }
        }
        ctx.nontrivial = has(&doc, &|e| is_void(&e.name) || is_raw_text(&e.name)) && has(&doc, &|e| e.name.ns == XHTML || e.name.ns == SVG || e.name.ns == MATHML);
        if ctx.knobs.variant == 1 {
            ctx.nontrivial = true;
        }
        let start: Node = root;
        let res = guarded(|| {
            let h = xot.html5();
            h.serialize_string(params, start)
        });
        let s = match res {
            Err(p) => return Verdict::Fail(format!("HTML5 serialisation panicked: {}", p)),
            Ok(Err(_)) => {
                ctx.label("refused");
                return Verdict::Pass;
            }
            Ok(Ok(s)) => s,
        };
        ctx.label("serialised");
        if pi_with_gt(&doc) {
            return Verdict::Fail(format!("a processing instruction whose data contains '>' was emitted: {:?}", s));
        }
        if !s.starts_with("<!DOCTYPE html>") {
            return Verdict::Fail(format!("output does not start with <!DOCTYPE html>: {:?}", s));
        }
        let body = &s["<!DOCTYPE html>".len()..];
        let toks = match htmltok::tokenize(body, &|name, _attrs| !name.contains(':') && matches!(name.to_ascii_lowercase().as_str(), "script" | "style")) {
            Ok(t) => t,
            Err(e) => return Verdict::Fail(format!("output {:?} cannot be tokenized: {}", s, e)),
        };
        let mut al = Al { toks: &toks, i: 0, indent, cdata: &cdata_q, open: vec![] };
        let r = match &doc {
            ANode::Document(ch) => al.children(ch, None, &scope::base_scope()),
            ANode::Attribute(..) | ANode::Namespace(..) => Ok(()),
            other => al.node(other, None, &scope::base_scope()),
        };
        if let Err(e) = r {
            return Verdict::Fail(format!("{} [output {:?}]", e, s));
        }
        al.skip_ws();
        if al.i != toks.len() && !matches!(doc, ANode::Attribute(..) | ANode::Namespace(..)) {
            return Verdict::Fail(format!("output has extra content {:?} [output {:?}]", &toks[al.i..], s));
        }
        // (late draw) the *_with_normalizer entry point: escaping happens AFTER normalisation. Metamorphic:
        // serialising with a toy normalizer (fullwidth '<' and '&' become ASCII) == serialising the tree
        // whose text already has that mapping applied
        if ctx.knobs.variant == 0 && src.ratio(1, 6) {
            struct Toy;
            impl xot::output::Normalizer for Toy {
                fn normalize<'a>(&self, content: std::borrow::Cow<'a, str>) -> std::borrow::Cow<'a, str> {
                    if content.contains('\u{ff1c}') || content.contains('\u{ff06}') {
                        std::borrow::Cow::Owned(content.replace('\u{ff1c}', "<").replace('\u{ff06}', "&"))
                    } else {
                        content
                    }
                }
            }
            fn set_first_text(n: &mut ANode, to: &str, inside_raw: bool) -> bool {
                match n {
                    ANode::Text(t) if !inside_raw => {
                        *t = to.to_string();
                        true
                    }
                    ANode::Element(e) => {
                        let raw = is_raw_text(&e.name);
                        e.children.iter_mut().any(|c| set_first_text(c, to, raw))
                    }
                    ANode::Document(ch) => ch.iter_mut().any(|c| set_first_text(c, to, false)),
                    _ => false,
                }
            }
            let wide = ["\u{ff1c}", "\u{ff06}\u{ff1c}", "x\u{ff1c}y\u{ff06}", "\u{ff06}"][src.choice(4)];
            let mapped = wide.replace('\u{ff1c}', "<").replace('\u{ff06}', "&");
            let mut d2 = doc.clone();
            let mut d3 = doc.clone();
            if set_first_text(&mut d2, wide, false) && set_first_text(&mut d3, &mapped, false) {
                ctx.label("toy_normalizer");
                let mut hs = vec![];
                let (r2, r3) = match (bridge::build(&mut xot, &d2, &mut hs), bridge::build(&mut xot, &d3, &mut hs)) {
                    (Ok(a), Ok(b)) => (a, b),
                    _ => return Verdict::Fail("harness: cannot build the trees for the normalizer comparison".into()),
                };
                let h = xot.html5();
                let p0 = || Parameters { indentation: None, cdata_section_elements: vec![] };
                let a = guarded(|| h.serialize_string_with_normalizer(p0(), r2, Toy));
                let b = guarded(|| h.serialize_string(p0(), r3));
                match (a, b) {
                    (Ok(Ok(a)), Ok(Ok(b))) => {
                        if a != b {
                            return Verdict::Fail(format!("with a normalizer that turns fullwidth < & into ASCII the output is {:?}, serialising the already normalised tree gives {:?}", a, b));
                        }
                    }
                    (Err(p), _) | (_, Err(p)) => return Verdict::Fail(format!("HTML5 serialisation with a normalizer panicked: {}", p)),
                    _ => {}
                }
            }
        }
        Verdict::Pass
    }
}
