//! C07 — axes and traversals obey the XPath document-order laws.

use std::collections::{HashMap, HashSet};

use xot::{Axis, LevelOrder, Node, NodeEdge, Xot};

use crate::bridge::bounded;
use crate::engine::{Ctx, Knobs, Plan, PlanKind, Property, Src, Tier, Verdict};
use crate::gen::{self, Alpha, Scoping, TreeOpts};
use crate::hist;
use crate::model::forest::Forest;
use crate::model::MVal;
use crate::props::c05::{apply_model, Sim};

pub struct C07;

#[derive(Clone, Copy, PartialEq, Eq, Debug)]
enum E {
    S(usize),
    X(usize),
}

struct Tr<'a> {
    xot: &'a Xot,
    m: &'a Forest,
    h: &'a [Option<Node>],
    back: HashMap<Node, usize>,
    lim: usize,
}

impl<'a> Tr<'a> {
    fn node(&self, id: usize) -> Node {
        self.h[id].unwrap()
    }
    fn ids(&self, v: Vec<Node>, what: &str, start: usize) -> Result<Vec<usize>, String> {
        v.into_iter()
            .map(|n| {
                self.back.get(&n).copied().ok_or_else(|| {
                    format!("{}(n{}) yields a node that is not in the tree at all", what, start)
                })
            })
            .collect()
    }
    fn nodes(&self, it: impl Iterator<Item = Node>, what: &str, start: usize) -> Result<Vec<usize>, String> {
        let v = bounded(it, self.lim, what)?;
        self.ids(v, what, start)
    }
    fn edges(&self, it: impl Iterator<Item = NodeEdge>, what: &str, start: usize) -> Result<Vec<E>, String> {
        let v = bounded(it, 2 * self.lim, what)?;
        v.into_iter()
            .map(|e| {
                let (n, s) = match e {
                    NodeEdge::Start(n) => (n, true),
                    NodeEdge::End(n) => (n, false),
                };
                let id = self.back.get(&n).copied().ok_or_else(|| {
                    format!("{}(n{}) yields a node that is not in the tree", what, start)
                })?;
                Ok(if s { E::S(id) } else { E::X(id) })
            })
            .collect()
    }
}

fn expect<T: PartialEq + std::fmt::Debug>(what: &str, n: usize, got: &T, want: &T, m: &Forest) -> Result<(), String> {
    if got != want {
        Err(format!(
            "{}(n{}) = {:?}, the parent/child structure implies {:?}; tree: {}",
            what,
            n,
            got,
            want,
            m.show()
        ))
    } else {
        Ok(())
    }
}

fn model_edges(m: &Forest, n: usize, all: bool, out: &mut Vec<E>) {
    if !all && !m.is_ordinary(n) {
        return;
    }
    out.push(E::S(n));
    for k in &m.nodes[n].kids {
        model_edges(m, *k, all, out);
    }
    out.push(E::X(n));
}

/// Check every traversal entry point for every node of the tree rooted at `root`.
pub fn check_tree(xot: &Xot, m: &Forest, h: &[Option<Node>], root: usize, count: &mut u64) -> Result<(), String> {
    let order_all = m.subtree(root);
    let n_all = order_all.len();
    let pos: HashMap<usize, usize> = order_all.iter().enumerate().map(|(i, n)| (*n, i)).collect();
    let order_plain: Vec<usize> = order_all.iter().copied().filter(|n| m.is_ordinary(*n)).collect();
    let mut back = HashMap::new();
    for id in &order_all {
        back.insert(h[*id].ok_or("harness: unbound node")?, *id);
    }
    let t = Tr {
        xot,
        m,
        h,
        back,
        lim: n_all + 8,
    };
    let sub_end = |n: usize| -> usize { pos[&n] + m.subtree(n).len() };
    let anc = |n: usize| -> Vec<usize> {
        let mut v = vec![n];
        let mut c = n;
        while let Some(p) = m.nodes[c].parent {
            v.push(p);
            c = p;
        }
        v
    };
    // whole-tree edge lists for NodeEdge::next/previous
    let mut tree_edges = vec![];
    model_edges(m, root, false, &mut tree_edges);

    for &n in &order_all {
        let xn = t.node(n);
        let ordinary = m.is_ordinary(n);
        *count += 1;
        // --- relations every node has
        let want_anc = anc(n);
        expect("ancestors", n, &t.nodes(xot.ancestors(xn), "ancestors", n)?, &want_anc, m)?;
        expect("axis(AncestorOrSelf)", n, &t.nodes(xot.axis(Axis::AncestorOrSelf, xn), "axis(AncestorOrSelf)", n)?, &want_anc, m)?;
        expect("axis(Ancestor)", n, &t.nodes(xot.axis(Axis::Ancestor, xn), "axis(Ancestor)", n)?, &want_anc[1..].to_vec(), m)?;
        expect("axis(Self)", n, &t.nodes(xot.axis(Axis::Self_, xn), "axis(Self)", n)?, &vec![n], m)?;
        let want_parent: Vec<usize> = m.nodes[n].parent.into_iter().collect();
        expect("parent", n, &xot.parent(xn).map(|p| t.back[&p]), &m.nodes[n].parent, m)?;
        expect("axis(Parent)", n, &t.nodes(xot.axis(Axis::Parent, xn), "axis(Parent)", n)?, &want_parent, m)?;
        expect("root", n, &t.back.get(&xot.root(xn)).copied(), &Some(root), m)?;
        // same-category siblings
        let (sibs, idx) = match m.nodes[n].parent {
            Some(p) => {
                let s = m.kids_cat(p, m.cat(n));
                let i = s.iter().position(|k| *k == n).unwrap();
                (s, i)
            }
            None => (vec![n], 0),
        };
        let want_fs: Vec<usize> = sibs[idx..].to_vec();
        let want_ps: Vec<usize> = sibs[..=idx].iter().rev().copied().collect();
        expect("following_siblings", n, &t.nodes(xot.following_siblings(xn), "following_siblings", n)?, &want_fs, m)?;
        expect("preceding_siblings", n, &t.nodes(xot.preceding_siblings(xn), "preceding_siblings", n)?, &want_ps, m)?;
        expect("axis(FollowingSibling)", n, &t.nodes(xot.axis(Axis::FollowingSibling, xn), "axis(FollowingSibling)", n)?, &want_fs[1..].to_vec(), m)?;
        expect("axis(PrecedingSibling)", n, &t.nodes(xot.axis(Axis::PrecedingSibling, xn), "axis(PrecedingSibling)", n)?, &want_ps[1..].to_vec(), m)?;
        expect("next_sibling", n, &xot.next_sibling(xn).map(|p| t.back[&p]), &sibs.get(idx + 1).copied(), m)?;
        expect("previous_sibling", n, &xot.previous_sibling(xn).map(|p| t.back[&p]), &(if idx > 0 { Some(sibs[idx - 1]) } else { None }), m)?;
        // following / preceding (XPath): for attribute and namespace nodes too
        let end = sub_end(n);
        let want_all_following: Vec<usize> = order_all[end..].to_vec();
        let want_following: Vec<usize> = want_all_following.iter().copied().filter(|k| m.is_ordinary(*k)).collect();
        expect("all_following", n, &t.nodes(xot.all_following(xn), "all_following", n)?, &want_all_following, m)?;
        expect("following", n, &t.nodes(xot.following(xn), "following", n)?, &want_following, m)?;
        expect("axis(Following)", n, &t.nodes(xot.axis(Axis::Following, xn), "axis(Following)", n)?, &want_following, m)?;
        let anc_set: HashSet<usize> = want_anc.iter().copied().collect();
        let want_preceding: Vec<usize> = order_all[..pos[&n]]
            .iter()
            .rev()
            .copied()
            .filter(|k| m.is_ordinary(*k) && !anc_set.contains(k))
            .collect();
        expect("preceding", n, &t.nodes(xot.preceding(xn), "preceding", n)?, &want_preceding, m)?;
        expect("axis(Preceding)", n, &t.nodes(xot.axis(Axis::Preceding, xn), "axis(Preceding)", n)?, &want_preceding, m)?;
        // reverse preorder
        let want_arp: Vec<usize> = order_all[..=pos[&n]].iter().rev().copied().collect();
        expect("all_reverse_preorder", n, &t.nodes(xot.all_reverse_preorder(xn), "all_reverse_preorder", n)?, &want_arp, m)?;
        let want_rp: Vec<usize> = want_arp.iter().copied().filter(|k| m.is_ordinary(*k)).collect();
        expect("reverse_preorder", n, &t.nodes(xot.reverse_preorder(xn), "reverse_preorder", n)?, &want_rp, m)?;
        // top_element
        if !m.is_document(n) {
            let want_top = want_anc.iter().copied().filter(|k| m.is_element(*k)).last().unwrap_or(n);
            expect("top_element", n, &t.back.get(&xot.top_element(xn)).copied(), &Some(want_top), m)?;
        }
        // all_descendants / all_traverse
        let want_alld: Vec<usize> = order_all[pos[&n]..end].to_vec();
        expect("all_descendants", n, &t.nodes(xot.all_descendants(xn), "all_descendants", n)?, &want_alld, m)?;
        let mut want_at = vec![];
        model_edges(m, n, true, &mut want_at);
        expect("all_traverse", n, &t.edges(xot.all_traverse(xn), "all_traverse", n)?, &want_at, m)?;
        let want_rat: Vec<E> = want_at.iter().rev().copied().collect();
        expect("reverse_all_traverse", n, &t.edges(xot.reverse_all_traverse(xn), "reverse_all_traverse", n)?, &want_rat, m)?;
        // derived predicates
        let parent_is_doc = m.nodes[n].parent.map(|p| m.is_document(p)).unwrap_or(false);
        expect("has_document_parent", n, &xot.has_document_parent(xn), &parent_is_doc, m)?;
        expect("is_document_element", n, &xot.is_document_element(xn), &(parent_is_doc && m.is_element(n)), m)?;
        // child_index
        if let Some(p) = m.nodes[n].parent {
            let want_ci = if ordinary { m.ordinary(p).iter().position(|k| *k == n) } else { None };
            expect("child_index", n, &xot.child_index(t.node(p), xn), &want_ci, m)?;
        }
        expect("child_index(self)", n, &xot.child_index(xn, xn), &None, m)?;

        if !ordinary {
            // the plain variants started AT an attribute or namespace node: such a node has no
            // ordinary descendants and the plain variants never expose attribute / namespace nodes
            let none: Vec<usize> = vec![];
            let none_e: Vec<E> = vec![];
            expect("children (of an attribute/namespace node)", n, &t.nodes(xot.children(xn), "children", n)?, &none, m)?;
            expect("traverse (from an attribute/namespace node)", n, &t.edges(xot.traverse(xn), "traverse", n)?, &none_e, m)?;
            expect("reverse_traverse (from an attribute/namespace node)", n, &t.edges(xot.reverse_traverse(xn), "reverse_traverse", n)?, &none_e, m)?;
            expect("descendants (of an attribute/namespace node)", n, &t.nodes(xot.descendants(xn), "descendants", n)?, &none, m)?;
            continue;
        }
        // --- ordinary start nodes
        let kids = m.ordinary(n);
        expect("children", n, &t.nodes(xot.children(xn), "children", n)?, &kids, m)?;
        expect("axis(Child)", n, &t.nodes(xot.axis(Axis::Child, xn), "axis(Child)", n)?, &kids, m)?;
        let rk: Vec<usize> = kids.iter().rev().copied().collect();
        expect("reverse_children", n, &t.nodes(xot.reverse_children(xn), "reverse_children", n)?, &rk, m)?;
        expect("first_child", n, &xot.first_child(xn).map(|p| t.back[&p]), &kids.first().copied(), m)?;
        expect("last_child", n, &xot.last_child(xn).map(|p| t.back[&p]), &kids.last().copied(), m)?;
        let attrs = m.kids_cat(n, 1);
        expect("attribute_nodes", n, &t.nodes(xot.attribute_nodes(xn), "attribute_nodes", n)?, &attrs, m)?;
        expect("axis(Attribute)", n, &t.nodes(xot.axis(Axis::Attribute, xn), "axis(Attribute)", n)?, &attrs, m)?;
        let want_desc: Vec<usize> = want_alld.iter().copied().filter(|k| m.is_ordinary(*k)).collect();
        let got_desc = t.nodes(xot.descendants(xn), "descendants", n)?;
        expect("descendants", n, &got_desc, &want_desc, m)?;
        expect("axis(DescendantOrSelf)", n, &t.nodes(xot.axis(Axis::DescendantOrSelf, xn), "axis(DescendantOrSelf)", n)?, &want_desc, m)?;
        expect("axis(Descendant)", n, &t.nodes(xot.axis(Axis::Descendant, xn), "axis(Descendant)", n)?, &want_desc[1..].to_vec(), m)?;
        let mut want_tr = vec![];
        model_edges(m, n, false, &mut want_tr);
        expect("traverse", n, &t.edges(xot.traverse(xn), "traverse", n)?, &want_tr, m)?;
        let want_rt: Vec<E> = want_tr.iter().rev().copied().collect();
        expect("reverse_traverse", n, &t.edges(xot.reverse_traverse(xn), "reverse_traverse", n)?, &want_rt, m)?;
        // NodeEdge::next / previous step through the whole tree
        for (i, e) in tree_edges.iter().enumerate() {
            let (id, start) = match e {
                E::S(i) => (*i, true),
                E::X(i) => (*i, false),
            };
            if id != n {
                continue;
            }
            let xe = if start { NodeEdge::Start(xn) } else { NodeEdge::End(xn) };
            let conv = |o: Option<NodeEdge>| -> Option<E> {
                o.map(|e| match e {
                    NodeEdge::Start(x) => E::S(*t.back.get(&x).unwrap_or(&usize::MAX)),
                    NodeEdge::End(x) => E::X(*t.back.get(&x).unwrap_or(&usize::MAX)),
                })
            };
            expect(if start { "NodeEdge::Start.next" } else { "NodeEdge::End.next" }, n, &conv(xe.next(xot)), &tree_edges.get(i + 1).copied(), m)?;
            expect(if start { "NodeEdge::Start.previous" } else { "NodeEdge::End.previous" }, n, &conv(xe.previous(xot)), &(if i > 0 { Some(tree_edges[i - 1]) } else { None }), m)?;
        }
        // level order
        let lo = bounded(xot.level_order(xn), 3 * t.lim, "level_order")?;
        let mut want_lo: Vec<Option<usize>> = vec![Some(n), None];
        let mut q = std::collections::VecDeque::new();
        q.push_back(n);
        while let Some(x) = q.pop_front() {
            let ks = m.ordinary(x);
            if !ks.is_empty() {
                for k in &ks {
                    want_lo.push(Some(*k));
                    q.push_back(*k);
                }
                want_lo.push(None);
            }
        }
        let got_lo: Vec<Option<usize>> = lo
            .into_iter()
            .map(|l| match l {
                LevelOrder::Node(x) => Some(*t.back.get(&x).unwrap_or(&usize::MAX)),
                LevelOrder::End => None,
            })
            .collect();
        expect("level_order", n, &got_lo, &want_lo, m)?;
        // document_element
        if m.is_document(n) {
            let want_de = kids.iter().copied().find(|k| m.is_element(*k));
            let got = xot.document_element(xn).ok().map(|x| t.back[&x]);
            expect("document_element", n, &got, &want_de, m)?;
            if want_de.is_some() {
                expect("top_element(document)", n, &t.back.get(&xot.top_element(xn)).copied(), &want_de, m)?;
            }
        }
        // (1) the partition law stated on the implementation's own answers
        let a: Vec<usize> = t.nodes(xot.ancestors(xn), "ancestors", n)?.into_iter().filter(|k| *k != n).collect();
        let d: Vec<usize> = got_desc.iter().copied().filter(|k| *k != n).collect();
        let p = t.nodes(xot.preceding(xn), "preceding", n)?;
        let f = t.nodes(xot.following(xn), "following", n)?;
        let mut seen: HashSet<usize> = HashSet::new();
        for (name, part) in [("ancestors", &a), ("descendants", &d), ("preceding", &p), ("following", &f), ("self", &vec![n])] {
            for k in part.iter() {
                if !seen.insert(*k) {
                    return Err(format!("partition law: n{} is in two axes of n{} (second: {}); tree {}", k, n, name, m.show()));
                }
            }
        }
        if seen.len() != order_plain.len() {
            return Err(format!("partition law: the five axes of n{} cover {} of {} nodes; tree {}", n, seen.len(), order_plain.len(), m.show()));
        }
        let asc = |v: &Vec<usize>| v.windows(2).all(|w| pos[&w[0]] < pos[&w[1]]);
        let desc_ = |v: &Vec<usize>| v.windows(2).all(|w| pos[&w[0]] > pos[&w[1]]);
        if !asc(&d) || !asc(&f) || !desc_(&a) || !desc_(&p) {
            return Err(format!("document-order law violated for the axes of n{}; tree {}", n, m.show()));
        }
    }
    Ok(())
}

impl Property for C07 {
    fn id(&self) -> &'static str {
        "C07"
    }
    fn rule(&self) -> &'static str {
        "case = a tree built through the creation API (documents, fragments, unattached elements; deep chains, wide fans; attribute and namespace nodes) or the forest at the end of a generated C05 history; for EVERY node (attribute and namespace nodes included) every traversal entry point and every Axis value is compared with the answer computed from the reference parent/child structure, plus the partition/ordering laws on xot's own answers; every iterator is bounded. Non-trivial = tree with >= 5 nodes, depth >= 2 and >= 1 attribute or namespace node. Distinct by hash of the tree(s)."
    }
    fn plans(&self, tier: Tier) -> Vec<Plan> {
        let small = Plan {
            name: "small",
            kind: PlanKind::Enumerate { limit: 400_000 },
            knobs: Knobs {
                max_nodes: 5,
                small: true,
                ..Default::default()
            },
        };
        match tier {
            Tier::Quick => vec![
                Plan {
                    name: "trees",
                    kind: PlanKind::Random { cases: 80_000, max_len: 600 },
                    knobs: Knobs { max_nodes: 40, ..Default::default() },
                },
                Plan {
                    name: "after-history",
                    kind: PlanKind::Random { cases: 60_000, max_len: 400 },
                    knobs: Knobs { max_nodes: 20, max_ops: 25, variant: 1, ..Default::default() },
                },
                small,
            ],
            Tier::Thorough => vec![
                Plan {
                    name: "trees",
                    kind: PlanKind::Random { cases: 1_000_000, max_len: 600 },
                    knobs: Knobs { max_nodes: 40, ..Default::default() },
                },
                Plan {
                    name: "trees-big",
                    kind: PlanKind::Random { cases: 60_000, max_len: 2400 },
                    knobs: Knobs { max_nodes: 150, ..Default::default() },
                },
                Plan {
                    name: "after-history",
                    kind: PlanKind::Random { cases: 600_000, max_len: 600 },
                    knobs: Knobs { max_nodes: 20, max_ops: 40, variant: 1, ..Default::default() },
                },
                small,
                Plan {
                    name: "small6",
                    kind: PlanKind::Enumerate { limit: 4_000_000 },
                    knobs: Knobs { max_nodes: 6, small: true, ..Default::default() },
                },
            ],
        }
    }

    fn check(&self, src: &mut Src, ctx: &mut Ctx) -> Verdict {
        let mut sim = Sim::new();
        let mut trees = vec![];
        if ctx.knobs.small {
            trees.push(hist::gen_small_tree(src, ctx.knobs.max_nodes));
        } else if ctx.knobs.variant == 1 {
            trees = hist::gen_start_forest(src, false, ctx.knobs.max_nodes);
        } else {
            let mut o = TreeOpts::xml(ctx.knobs.max_nodes);
            o.alpha = Alpha::Tiny;
            o.attr_alpha = Alpha::Tiny;
            o.scoping = Scoping::Free;
            o.max_depth = 10;
            trees.push(match src.weighted(&[3, 3, 3, 2]) {
                0 => gen::gen_document(src, &o),
                1 => gen::gen_fragment(src, &o),
                2 => gen::gen_element_tree(src, &o),
                _ => gen::gen_shape(src, &o),
            });
        }
        for t in &trees {
            if let Err(e) = sim.add_start(t) {
                return Verdict::Fail(e);
            }
        }
        let mut log = vec![];
        if ctx.knobs.variant == 1 {
            // run a valid history first, then look at what it left behind
            let nops = 1 + src.choice(ctx.knobs.max_ops.max(1));
            let mut attempts = 0;
            let mut done = 0;
            while done < nops && attempts < 4 * nops {
                attempts += 1;
                if src.exhausted() {
                    break;
                }
                let op = match super::c05::gen_valid_op_pub(src, &sim.model, false, ctx) {
                    Some(o) => o,
                    None => continue,
                };
                done += 1;
                log.push(op.show());
                let before = sim.model.clone();
                let eff = apply_model(&mut sim.model, &op);
                let hs = sim.h.clone();
                let hf = move |i: usize| hs[i].expect("unbound");
                let out = crate::engine::runner::guarded(|| hist::exec(&mut sim.xot, &op, &hf));
                match out {
                    Ok(hist::Outcome::Err(_)) => {
                        sim.model = before;
                    }
                    Ok(hist::Outcome::Node(n)) => {
                        if let Some(r) = eff.ret {
                            sim.bind(r, n);
                        }
                    }
                    Ok(_) => {}
                    Err(_) => return Verdict::Pass, // C05/C06 own this
                }
                if sim.compare(&eff).is_err() {
                    // C05 owns model disagreements; C07 only looks at agreed states
                    return Verdict::Pass;
                }
            }
        }
        let mut count = 0u64;
        let mut nontrivial = false;
        for r in sim.model.roots() {
            let sub = sim.model.subtree(r);
            let depth = sim.model.to_anode(r).depth();
            if sub.len() >= 5
                && depth >= 2
                && sub.iter().any(|k| sim.model.cat(*k) != 2)
            {
                nontrivial = true;
            }
            if let Err(e) = check_tree(&sim.xot, &sim.model, &sim.h, r, &mut count) {
                ctx.rendering(|| format!("{} after [{}]", sim.model.show(), log.join("; ")));
                return Verdict::Fail(e);
            }
        }
        ctx.nontrivial = nontrivial;
        ctx.fingerprint(&(sim.model.show(), log.len()));
        if sim.model.roots().iter().any(|r| sim.model.to_anode(*r).depth() >= 10) {
            ctx.label("deep");
        }
        if sim.model.alive().iter().any(|n| sim.model.ordinary(*n).len() >= 10) {
            ctx.label("wide");
        }
        ctx.rendering(|| format!("{} after [{}]", sim.model.show(), log.join("; ")));
        let _ = MVal::Document;
        Verdict::Pass
    }
}
