//! One oracle per property.
use crate::engine::Property;

pub mod c01;
pub mod c02;
pub mod c03;
pub mod c04;
pub mod c05;
pub mod c07;
pub mod c08;
pub mod c09;
pub mod c10;
pub mod c11;
pub mod c12;
pub mod c13;
pub mod c14;
pub mod c15;
pub mod c16;
pub mod c17;
pub mod c18;
pub mod c19;
pub mod c20;
pub mod common;

pub fn all() -> Vec<&'static dyn Property> {
    vec![&c01::C01, &c02::C02, &c03::C03, &c04::C04, &c05::C05, &c04::C06, &c07::C07, &c08::C08, &c09::C09, &c10::C10, &c11::C11, &c12::C12, &c13::C13, &c14::C14, &c15::C15, &c16::C16, &c17::C17, &c18::C18, &c19::C19, &c20::C20]
}

pub fn by_id(id: &str) -> Option<&'static dyn Property> {
    all().into_iter().find(|p| p.id() == id)
}

/// classifier signatures the harness defines per property (see DESIGN.md appendix C)
pub fn signatures(id: &str) -> Vec<&'static str> {
    match id {
        "C02" => vec!["xmlDeclLineBreakAfterXmlKeyword"],
        "C09" => vec!["noNsElementNameUnderDefaultNs"],
        "C19" => vec!["xhtmlHttpsLookalikeTreatedAsXhtml"],
        _ => vec![],
    }
}
