//! C02 — parsing yields exactly the document the text denotes.

use xot::{Node, Xot};

use crate::bridge;
use crate::engine::runner::guarded;
use crate::engine::{Ctx, Knobs, Plan, PlanKind, Property, Src, Tier, Verdict};
use crate::gen::render::{self, Rendered, Style};
use crate::gen::{self, Alpha, Names, TreeOpts};
use crate::model::{AElem, ANode, QName, XML_NS};
use crate::props::common::{same_tree, Cmp};

pub struct C02;

pub struct Case {
    pub doc: ANode,
    pub rendered: Rendered,
    pub fragment: bool,
}

/// Generate an abstract document and one lexical rendering of it.
pub fn make_case(src: &mut Src, knobs: &Knobs, fragment: bool, latin1: bool, prolog: bool) -> Result<Case, String> {
    make_case_opts(src, knobs, fragment, latin1, prolog, false)
}

pub fn make_case_opts(src: &mut Src, knobs: &Knobs, fragment: bool, latin1: bool, prolog: bool, wide_prefixes: bool) -> Result<Case, String> {
    let mut o = TreeOpts::xml(knobs.max_nodes.max(3));
    o.xml_ids = true;
    o.odd_uris = true;
    o.wide_prefixes = wide_prefixes;
    o.xml_prefix_decls = wide_prefixes;
    if knobs.variant == 5 {
        // plan bytes-cp1252: text made of the characters windows-1252 keeps in 0x80..0x9F
        o.alpha = Alpha::Cp1252;
        o.attr_alpha = Alpha::Cp1252;
        o.names = Names::Latin;
        o.odd_uris = false;
    }
    if latin1 {
        o.alpha = Alpha::Latin1;
        o.attr_alpha = Alpha::Latin1;
        o.names = Names::Latin;
    }
    let doc = if fragment { gen::gen_fragment(src, &o) } else { gen::gen_document(src, &o) };
    // the wide option also switches on empty CDATA sections inside text runs (their content
    // position is where a text span ends)
    let st = Style { fragment, prolog: prolog && !latin1, empty_cdata: wide_prefixes, ..Style::rich() };
    let rendered = render::render(src, &doc, st)?;
    Ok(Case { doc, rendered, fragment })
}

/// every xml:id in the expected tree: (normalised value, path)
pub fn collect_ids(n: &ANode, path: &mut Vec<usize>, out: &mut Vec<(String, Vec<usize>)>) {
    if let ANode::Element(e) = n {
        for (q, v) in &e.attrs {
            if q.ns == XML_NS && q.local == "id" {
                out.push((v.clone(), path.clone()));
            }
        }
    }
    for (i, c) in n.children().iter().enumerate() {
        path.push(i);
        collect_ids(c, path, out);
        path.pop();
    }
}

pub fn node_at(xot: &Xot, root: Node, path: &[usize]) -> Option<Node> {
    let mut cur = root;
    for i in path {
        cur = xot.children(cur).take(100_000).nth(*i)?;
    }
    Some(cur)
}

fn encode_utf16(s: &str, le: bool) -> Vec<u8> {
    let mut out = vec![];
    if le {
        out.extend_from_slice(&[0xFF, 0xFE]);
    } else {
        out.extend_from_slice(&[0xFE, 0xFF]);
    }
    for u in s.encode_utf16() {
        if le {
            out.extend_from_slice(&u.to_le_bytes());
        } else {
            out.extend_from_slice(&u.to_be_bytes());
        }
    }
    out
}

fn check_against(xot: &Xot, root: Node, expected: &ANode, what: &str) -> Result<(), String> {
    let got = bridge::read(xot, root)?;
    same_tree(&got, expected, Cmp::content()).map_err(|e| format!("{}: {}", what, e))
}

impl Property for C02 {
    fn id(&self) -> &'static str {
        "C02"
    }
    fn rule(&self) -> &'static str {
        "case = abstract document (well-scoped, XML-representable, xml:id values with stray spaces) + one lexical rendering whose every choice is drawn from the case (entities / decimal / hex references, text vs CDATA runs, LF/CR/CRLF line ends, literal whitespace in attribute values, either quote, in-tag whitespace, alias prefixes, declarations interleaved with attributes, XML declaration, BOM, top-level whitespace) + entry point (parse, parse_with_span_info, parse_fragment and its wrapped-in-one-element equivalent, parse_bytes as UTF-8 +- BOM, UTF-16LE/BE with BOM, ISO-8859-1 / windows-1252 declared). The tree read back must equal the document the RENDERER says the text denotes (names, attribute sets with normalised values, merged line-end-normalised text, comments, PIs, per-element declaration maps) and xml_id_node must find exactly the carrying element. Non-trivial = at least 2 distinct spelling features used. Distinct by hash of (rendered text, entry point)."
    }
    fn assumptions(&self) -> Vec<&'static str> {
        vec!["attribute and declaration order are not compared (no property but C11 mentions order)"]
    }
    fn plans(&self, tier: Tier) -> Vec<Plan> {
        let mk = |name: &'static str, cases, variant, max_nodes| Plan {
            name,
            kind: PlanKind::Random { cases, max_len: 1200 },
            knobs: Knobs { max_nodes, variant, ..Default::default() },
        };
        match tier {
            Tier::Quick => vec![mk("doc", 250_000, 0, 24), mk("fragment", 120_000, 1, 16), mk("bytes", 120_000, 2, 16), mk("doc-wide", 100_000, 3, 24), mk("fragment-wide", 50_000, 4, 16), mk("bytes-cp1252", 30_000, 5, 12)],
            Tier::Thorough => vec![
                mk("doc", 2_000_000, 0, 24),
                mk("doc-big", 100_000, 0, 80),
                mk("fragment", 600_000, 1, 16),
                mk("bytes", 600_000, 2, 16),
                mk("doc-wide", 800_000, 3, 24),
                mk("fragment-wide", 300_000, 4, 16),
                mk("bytes-cp1252", 300_000, 5, 12),
            ],
        }
    }

    fn check(&self, src: &mut Src, ctx: &mut Ctx) -> Verdict {
        // plans doc-wide / fragment-wide: non-ASCII prefixes, local names such as id / lang / space
        // (which are not xml:id / xml:lang / xml:space), empty CDATA sections inside text runs
        if ctx.knobs.variant == 5 {
            return self.cp1252(src, ctx);
        }
        let wide = ctx.knobs.variant >= 3;
        let variant = if wide { ctx.knobs.variant - 3 } else { ctx.knobs.variant };
        let fragment = variant == 1;
        let enc = if variant == 2 { src.choice(5) } else { 0 };
        let latin1 = variant == 2 && enc == 4;
        let case = match make_case_opts(src, &ctx.knobs, fragment, latin1, !(variant == 2 && enc >= 2), wide) {
            Ok(c) => c,
            Err(e) => {
                ctx.label("unrenderable");
                let _ = e;
                return Verdict::Pass;
            }
        };
        let text = &case.rendered.text;
        let exp = &case.rendered.expected;
        let mut xot = Xot::new();
        let mut entry: &'static str = "?";
        if wide && src.ratio(1, 4) {
            // the manipulation option "text consolidation off" does not change what a text denotes:
            // text, references and CDATA runs are still one text node
            xot.set_text_consolidation(false);
            ctx.label("parsed_with_text_consolidation_off");
        }
        let verdict: Result<(), String> = (|| {
            let root = match variant {
                0 => {
                    if src.bool() {
                        entry = "parse";
                        guarded(|| xot.parse(text)).map_err(|p| format!("parse panicked: {}", p))?
                            .map_err(|e| format!("parse rejected a well-formed rendering: {}", e))?
                    } else {
                        entry = "parse_with_span_info";
                        guarded(|| xot.parse_with_span_info(text).map(|x| x.0)).map_err(|p| format!("parse panicked: {}", p))?
                            .map_err(|e| format!("parse_with_span_info rejected a well-formed rendering: {}", e))?
                    }
                }
                1 => {
                    entry = "parse_fragment";
                    let f = guarded(|| xot.parse_fragment(text)).map_err(|p| format!("parse_fragment panicked: {}", p))?
                        .map_err(|e| format!("parse_fragment rejected a well-formed fragment: {}", e))?;
                    // metamorphic: same content as the text wrapped in one element
                    let wrapped = format!("<w>{}</w>", text);
                    let d = guarded(|| xot.parse(&wrapped)).map_err(|p| format!("parse panicked: {}", p))?
                        .map_err(|e| format!("parse rejected the wrapped fragment: {}", e))?;
                    let w = xot.document_element(d).map_err(|e| e.to_string())?;
                    let inner = match bridge::read(&xot, w)? {
                        ANode::Element(e) => ANode::Document(e.children),
                        _ => return Err("wrapped parse has no element".into()),
                    };
                    let fr = bridge::read(&xot, f)?;
                    same_tree(&fr, &inner, Cmp::content()).map_err(|e| format!("parse_fragment(T) differs from the children of parse(<w>T</w>): {}", e))?;
                    f
                }
                _ => {
                    let bytes: Vec<u8> = match enc {
                        0 => {
                            entry = "parse_bytes(utf-8)";
                            text.as_bytes().to_vec()
                        }
                        1 => {
                            entry = "parse_bytes(utf-8 with BOM)";
                            let mut b = vec![0xEF, 0xBB, 0xBF];
                            b.extend_from_slice(text.trim_start_matches('\u{feff}').as_bytes());
                            b
                        }
                        2 => {
                            entry = "parse_bytes(utf-16le)";
                            encode_utf16(text, true)
                        }
                        3 => {
                            entry = "parse_bytes(utf-16be)";
                            encode_utf16(text, false)
                        }
                        _ => {
                            let label = if src.bool() { "ISO-8859-1" } else { "windows-1252" };
                            entry = "parse_bytes(latin1 declared)";
                            let full = format!("<?xml version=\"1.0\" encoding=\"{}\"?>{}", label, text);
                            let mut b = vec![];
                            for c in full.chars() {
                                let u = c as u32;
                                if u > 0xff || (0x80..0xa0).contains(&u) {
                                    return Err(format!("harness: character U+{:04X} is not Latin-1 safe", u));
                                }
                                b.push(u as u8);
                            }
                            b
                        }
                    };
                    guarded(|| xot.parse_bytes(&bytes)).map_err(|p| format!("{} panicked: {}", entry, p))?
                        .map_err(|e| format!("{} rejected a well-formed rendering: {}", entry, e))?
                }
            };
            check_against(&xot, root, exp, entry)?;
            // xml:id index
            let mut ids = vec![];
            collect_ids(exp, &mut vec![], &mut ids);
            for (id, path) in &ids {
                let want = node_at(&xot, root, path).ok_or("harness: path")?;
                let got = xot.xml_id_node(root, id);
                if got != Some(want) {
                    return Err(format!("xml_id_node(doc, {:?}) does not return the element carrying that id", id));
                }
            }
            if xot.xml_id_node(root, "no-such-id").is_some() {
                return Err("xml_id_node finds an id that occurs nowhere".into());
            }
            if !ids.is_empty() {
                ctx.label("xml_id");
            }
            Ok(())
        })();
        for f in &case.rendered.features {
            ctx.label(f);
        }
        ctx.nontrivial = case.rendered.features.len() >= 2;
        ctx.fingerprint(&(text.clone(), variant, enc));
        ctx.rendering(|| format!("{:?} denotes {}", text, exp.show()));
        match verdict {
            Ok(()) => Verdict::Pass,
            Err(e) => Verdict::Fail(e),
        }
    }
}

#[allow(dead_code)]
fn _u(_: AElem, _: QName) {}

/// windows-1252 byte for a character (None = not encodable)
fn cp1252_byte(c: char) -> Option<u8> {
    const HI: &[(char, u8)] = &[
        ('\u{20ac}', 0x80), ('\u{201a}', 0x82), ('\u{0192}', 0x83), ('\u{201e}', 0x84), ('\u{2026}', 0x85), ('\u{2020}', 0x86),
        ('\u{2021}', 0x87), ('\u{02c6}', 0x88), ('\u{2030}', 0x89), ('\u{0160}', 0x8a), ('\u{2039}', 0x8b), ('\u{0152}', 0x8c),
        ('\u{017d}', 0x8e), ('\u{2018}', 0x91), ('\u{2019}', 0x92), ('\u{201c}', 0x93), ('\u{201d}', 0x94), ('\u{2022}', 0x95),
        ('\u{2013}', 0x96), ('\u{2014}', 0x97), ('\u{02dc}', 0x98), ('\u{2122}', 0x99), ('\u{0161}', 0x9a), ('\u{203a}', 0x9b),
        ('\u{0153}', 0x9c), ('\u{017e}', 0x9e), ('\u{0178}', 0x9f),
    ];
    let u = c as u32;
    if u < 0x80 || (0xa0..=0xff).contains(&u) {
        return Some(u as u8);
    }
    HI.iter().find(|(ch, _)| *ch == c).map(|(_, b)| *b)
}

impl C02 {
    /// plan bytes-cp1252: a document declared windows-1252 whose text is dominated by the characters
    /// that code page keeps in 0x80..0x9F (decoded, they take three UTF-8 bytes each)
    fn cp1252(&self, src: &mut Src, ctx: &mut Ctx) -> Verdict {
        let case = match make_case_opts(src, &ctx.knobs, false, false, false, false) {
            Ok(c) => c,
            Err(_) => {
                ctx.label("unrenderable");
                return Verdict::Pass;
            }
        };
        // the declaration in one of its legal spellings: either quote, white space around the equals
        // signs and before "?>", the label in any case (XML 1.0 productions [23]-[25], [80]-[81])
        let q = if src.bool() { '"' } else { '\'' };
        let eq = ["=", " = ", "= ", " =", "\t=\n"][src.weighted(&[4, 2, 1, 1, 1])];
        // (a text that needs the bytes 0x80..0x9F is windows-1252 only: in ISO-8859-1 proper those are C1 controls)
        let needs_cp1252 = case.rendered.text.chars().any(|c| matches!(cp1252_byte(c), Some(b) if (0x80..0xa0).contains(&b)));
        let label = ["windows-1252", "Windows-1252", "WINDOWS-1252", "ISO-8859-1", "iso-8859-1"][src.choice(if needs_cp1252 { 3 } else { 5 })];
        // known finding xmlDeclLineBreakAfterXmlKeyword: the tokenizer xot uses (crate xmlparser) wants a
        // space directly after "<?xml"; a line break or TAB there (S in production [24]) is rejected
        let mut after_keyword = [" ", "  ", "\n", "\t", " \n"][src.choice(5)];
        if !after_keyword.starts_with(' ') {
            if ctx.exclude("xmlDeclLineBreakAfterXmlKeyword") {
                after_keyword = " ";
            } else {
                ctx.label("declaration_with_line_break_or_tab_after_xml_keyword");
            }
        }
        let full = format!(
            "<?xml{}version{}{}1.0{}{}encoding{}{}{}{}{}?>{}",
            after_keyword,
            eq,
            q,
            q,
            [" ", "\n", " \t"][src.choice(3)],
            eq,
            q,
            label,
            q,
            ["", " ", "\n"][src.choice(3)],
            case.rendered.text
        );
        if eq != "=" {
            ctx.label("declaration_with_white_space_around_equals");
        }
        let mut bytes = vec![];
        let mut hi = 0usize;
        for c in full.chars() {
            match cp1252_byte(c) {
                Some(b) => {
                    if (0x80..0xa0).contains(&b) {
                        hi += 1;
                    }
                    bytes.push(b)
                }
                None => {
                    ctx.label("not_cp1252");
                    return Verdict::Pass;
                }
            }
        }
        ctx.fingerprint(&bytes);
        ctx.rendering(|| format!("{:?}", full));
        ctx.nontrivial = hi * 2 > bytes.len();
        if ctx.nontrivial {
            ctx.label("high_bytes_outnumber_the_rest");
        }
        let mut xot = Xot::new();
        let r: Result<(), String> = (|| {
            let root = guarded(|| xot.parse_bytes(&bytes))
                .map_err(|p| format!("parse_bytes(windows-1252) panicked: {}", p))?
                .map_err(|e| format!("parse_bytes(windows-1252 declared) rejected a well-formed rendering: {}", e))?;
            check_against(&xot, root, &case.rendered.expected, "parse_bytes(windows-1252 declared)")
        })();
        match r {
            Ok(()) => Verdict::Pass,
            Err(e) => Verdict::Fail(e),
        }
    }
}
