//! C08 — name, namespace and prefix ids are a stable one-to-one interning.

use std::collections::{HashMap, HashSet};

use xot::{NameId, NamespaceId, PrefixId, Xot};

use crate::engine::{Ctx, Knobs, Plan, PlanKind, Property, Src, Tier, Verdict};
use crate::gen::{self, render};
use crate::model::{ANode, QName, XML_NS};

/// Walk the parsed tree and the tree the text denotes in parallel and collect
/// (expanded name the renderer wrote, NameId xot assigned). Returns false when
/// the shapes differ (that is C02's business, not C08's).
fn collect_names(xot: &Xot, node: xot::Node, exp: &ANode, out: &mut Vec<(QName, NameId)>) -> bool {
    match exp {
        ANode::Document(ch) => {
            let kids: Vec<xot::Node> = xot.children(node).take(10_000).collect();
            if kids.len() != ch.len() {
                return false;
            }
            kids.iter().zip(ch.iter()).all(|(k, c)| collect_names(xot, *k, c, out))
        }
        ANode::Element(e) => {
            let el = match xot.element(node) {
                Some(el) => el,
                None => return false,
            };
            out.push((e.name.clone(), el.name()));
            let keys: Vec<NameId> = xot.attributes(node).keys().take(10_000).collect();
            if keys.len() != e.attrs.len() {
                return false;
            }
            for (k, (q, _)) in keys.iter().zip(e.attrs.iter()) {
                out.push((q.clone(), *k));
            }
            let kids: Vec<xot::Node> = xot.children(node).take(10_000).collect();
            if kids.len() != e.children.len() {
                return false;
            }
            kids.iter().zip(e.children.iter()).all(|(k, c)| collect_names(xot, *k, c, out))
        }
        ANode::PI(target, _) => {
            match xot.processing_instruction(node) {
                Some(pi) => {
                    // a PI target is a name in no namespace
                    out.push((QName::new("", target), pi.target()));
                    true
                }
                None => false,
            }
        }
        _ => true,
    }
}

pub struct C08;

/// the pool of plan hist-parse: also spellings that differ from a built-in only by case
const STRS_WIDE: &[&str] = &[
    "", "a", "b", "A", "xml", "space", "id", "xmlns", "é", "urn:a", "urn:b", "n0", "p",
    "http://www.w3.org/XML/1998/namespace", "http://www.w3.org/1999/xhtml", "br", "BR", "a b",
    "\u{1F600}", "XML", "Xml", "xMl", "XMLNS", "Space", "ID", "HTTP://WWW.W3.ORG/XML/1998/NAMESPACE",
    "{urn:a}b", "{}b", "{", "URN:a", "Urn:B", "DIV", "div", "p:a", "a:b:c",
];

const STRS: &[&str] = &[
    "", "a", "b", "A", "xml", "space", "id", "xmlns", "é", "urn:a", "urn:b", "n0", "p",
    "http://www.w3.org/XML/1998/namespace", "http://www.w3.org/1999/xhtml", "br", "BR", "a b",
    "\u{1F600}",
];

struct Model {
    ns: HashMap<String, NamespaceId>,
    pf: HashMap<String, PrefixId>,
    nm: HashMap<(String, String), NameId>,
    bulk_counter: usize,
    /// strings a rejected parse has seen: they may or may not be registered, but a lookup that
    /// finds one must resolve back to the same string
    ghost_names: Vec<(String, String)>,
    ghost_prefixes: Vec<String>,
    /// every text handed to a parser so far (parsing registers what it sees), and whether html5() ran
    parsed_texts: Vec<String>,
    html5_called: bool,
}

impl Model {
    fn check_all(&self, xot: &Xot, what: &str) -> Result<(), String> {
        // injectivity
        let ids: HashSet<NamespaceId> = self.ns.values().copied().collect();
        if ids.len() != self.ns.len() {
            return Err(format!(
                "{}: {} distinct namespaces share {} ids",
                what,
                self.ns.len(),
                ids.len()
            ));
        }
        let ids: HashSet<PrefixId> = self.pf.values().copied().collect();
        if ids.len() != self.pf.len() {
            return Err(format!(
                "{}: {} distinct prefixes share {} ids",
                what,
                self.pf.len(),
                ids.len()
            ));
        }
        let ids: HashSet<NameId> = self.nm.values().copied().collect();
        if ids.len() != self.nm.len() {
            return Err(format!(
                "{}: {} distinct names share {} ids",
                what,
                self.nm.len(),
                ids.len()
            ));
        }
        for (s, id) in &self.ns {
            if xot.namespace_str(*id) != s {
                return Err(format!(
                    "{}: namespace id registered for {:?} now resolves to {:?}",
                    what,
                    s,
                    xot.namespace_str(*id)
                ));
            }
            if xot.namespace(s) != Some(*id) {
                return Err(format!("{}: namespace({:?}) lookup != registered id", what, s));
            }
        }
        for (s, id) in &self.pf {
            if xot.prefix_str(*id) != s {
                return Err(format!(
                    "{}: prefix id registered for {:?} now resolves to {:?}",
                    what,
                    s,
                    xot.prefix_str(*id)
                ));
            }
            if xot.prefix(s) != Some(*id) {
                return Err(format!("{}: prefix({:?}) lookup != registered id", what, s));
            }
        }
        for ((l, n), id) in &self.nm {
            let (gl, gn) = xot.name_ns_str(*id);
            if gl != l || gn != n {
                return Err(format!(
                    "{}: name id registered for ({:?},{:?}) now resolves to ({:?},{:?})",
                    what, l, n, gl, gn
                ));
            }
            if xot.local_name_str(*id) != l || xot.uri_str(*id) != n {
                return Err(format!("{}: local_name_str/uri_str disagree for ({:?},{:?})", what, l, n));
            }
            let nsid = xot.namespace_for_name(*id);
            if xot.namespace_str(nsid) != n {
                return Err(format!("{}: namespace_for_name disagrees for ({:?},{:?})", what, l, n));
            }
            match self.ns.get(n) {
                Some(reg) => {
                    if *reg != nsid {
                        return Err(format!("{}: namespace_for_name id differs from add_namespace id for {:?}", what, n));
                    }
                    if xot.name_ns(l, nsid) != Some(*id) {
                        return Err(format!("{}: name_ns lookup fails for ({:?},{:?})", what, l, n));
                    }
                }
                None => {}
            }
        }
        for (l, n) in &self.ghost_names {
            if let Some(nsid) = xot.namespace(n) {
                if xot.namespace_str(nsid) != n {
                    return Err(format!("{}: namespace({:?}) (seen by a rejected parse) finds an id that resolves to {:?}", what, n, xot.namespace_str(nsid)));
                }
                if let Some(id) = xot.name_ns(l, nsid) {
                    let (gl, gn) = xot.name_ns_str(id);
                    if gl != l || gn != n {
                        return Err(format!("{}: name_ns({:?},{:?}) (seen by a rejected parse) finds an id that resolves to ({:?},{:?})", what, l, n, gl, gn));
                    }
                    if let Some(reg) = self.nm.iter().find(|(k, v)| **v == id && (k.0 != *l || k.1 != *n)) {
                        return Err(format!("{}: ({:?},{:?}) (seen by a rejected parse) shares its id with the registered name {:?}", what, l, n, reg.0));
                    }
                }
            }
        }
        // lookups find exactly what is registered: pool strings that were never registered as that
        // kind (and that no rejected parse has seen) are not found
        // (only while nothing has registered strings behind the model's back: no parse, no html5())
        let pure = !self.html5_called && self.parsed_texts.is_empty();
        for s in STRS_WIDE.iter().chain(["urn:only-a-namespace", "onlyaprefix"].iter()).filter(|_| pure) {
            let ghost = self.ghost_prefixes.iter().any(|g| g == s) || self.ghost_names.iter().any(|(l, n)| l == s || n == s);
            // (coarse but sound) a string that occurs anywhere in a parsed text may have been registered by the parser
            if ghost || s.is_empty() || self.parsed_texts.iter().any(|t| t.contains(*s)) {
                continue;
            }
            if !self.pf.contains_key(*s) && xot.prefix(s).is_some() {
                return Err(format!("{}: prefix({:?}) finds something although that string was never registered as a prefix", what, s));
            }
            if !self.ns.contains_key(*s) && xot.namespace(s).is_some() {
                return Err(format!("{}: namespace({:?}) finds something although that string was never registered as a namespace", what, s));
            }
            if !self.html5_called && !self.nm.contains_key(&(s.to_string(), String::new())) && xot.name(s).is_some() {
                return Err(format!("{}: name({:?}) finds something although no such name in no namespace was registered", what, s));
            }
        }
        for s in &self.ghost_prefixes {
            if let Some(id) = xot.prefix(s) {
                if xot.prefix_str(id) != s {
                    return Err(format!("{}: prefix({:?}) (seen by a rejected parse) finds an id that resolves to {:?}", what, s, xot.prefix_str(id)));
                }
            }
        }
        Ok(())
    }
}

fn reg_ns(xot: &mut Xot, m: &mut Model, s: &str) -> Result<NamespaceId, String> {
    let was = xot.namespace(s);
    let id = xot.add_namespace(s);
    match m.ns.get(s) {
        Some(old) => {
            if *old != id {
                return Err(format!("add_namespace({:?}) returned a different id on re-registration", s));
            }
            if was != Some(id) {
                return Err(format!("namespace({:?}) did not find a registered namespace", s));
            }
        }
        None => {
            if let Some(w) = was {
                // may have been registered implicitly (parse/html5/builtin) — then ids must agree
                if w != id {
                    return Err(format!("namespace({:?}) and add_namespace disagree", s));
                }
            }
            if let Some((other, _)) = m.ns.iter().find(|(_, v)| **v == id) {
                return Err(format!(
                    "add_namespace({:?}) returned the id already given to {:?}",
                    s, other
                ));
            }
            m.ns.insert(s.to_string(), id);
        }
    }
    if xot.namespace_str(id) != s {
        return Err(format!("namespace_str(add_namespace({:?})) = {:?}", s, xot.namespace_str(id)));
    }
    Ok(id)
}

fn reg_pf(xot: &mut Xot, m: &mut Model, s: &str) -> Result<PrefixId, String> {
    let was = xot.prefix(s);
    let id = xot.add_prefix(s);
    match m.pf.get(s) {
        Some(old) => {
            if *old != id {
                return Err(format!("add_prefix({:?}) returned a different id on re-registration", s));
            }
            if was != Some(id) {
                return Err(format!("prefix({:?}) did not find a registered prefix", s));
            }
        }
        None => {
            if let Some(w) = was {
                if w != id {
                    return Err(format!("prefix({:?}) and add_prefix disagree", s));
                }
            }
            if let Some((other, _)) = m.pf.iter().find(|(_, v)| **v == id) {
                return Err(format!(
                    "add_prefix({:?}) returned the id already given to {:?}",
                    s, other
                ));
            }
            m.pf.insert(s.to_string(), id);
        }
    }
    if xot.prefix_str(id) != s {
        return Err(format!("prefix_str(add_prefix({:?})) = {:?}", s, xot.prefix_str(id)));
    }
    Ok(id)
}

fn reg_name(xot: &mut Xot, m: &mut Model, l: &str, n: &str) -> Result<NameId, String> {
    let nsid = reg_ns(xot, m, n)?;
    let was = xot.name_ns(l, nsid);
    let id = if n.is_empty() {
        let a = xot.add_name(l);
        let b = xot.add_name_ns(l, xot.no_namespace());
        if a != b {
            return Err(format!("add_name({:?}) != add_name_ns(.., no_namespace)", l));
        }
        if xot.name(l) != Some(a) {
            return Err(format!("name({:?}) does not find the registered name", l));
        }
        a
    } else {
        xot.add_name_ns(l, nsid)
    };
    let key = (l.to_string(), n.to_string());
    match m.nm.get(&key) {
        Some(old) => {
            if *old != id {
                return Err(format!("add_name_ns({:?},{:?}) returned a different id on re-registration", l, n));
            }
            if was != Some(id) {
                return Err(format!("name_ns({:?},{:?}) did not find a registered name", l, n));
            }
        }
        None => {
            if let Some(w) = was {
                if w != id {
                    return Err(format!("name_ns and add_name_ns disagree for ({:?},{:?})", l, n));
                }
            }
            if let Some((other, _)) = m.nm.iter().find(|(_, v)| **v == id) {
                return Err(format!(
                    "add_name_ns({:?},{:?}) returned the id already given to {:?}",
                    l, n, other
                ));
            }
            m.nm.insert(key, id);
        }
    }
    let (gl, gn) = xot.name_ns_str(id);
    if gl != l || gn != n {
        return Err(format!("name_ns_str of fresh id for ({:?},{:?}) = ({:?},{:?})", l, n, gl, gn));
    }
    Ok(id)
}

fn builtin(xot: &Xot) -> Result<(), String> {
    if xot.namespace_str(xot.no_namespace()) != "" {
        return Err("no_namespace does not resolve to \"\"".into());
    }
    if xot.prefix_str(xot.empty_prefix()) != "" {
        return Err("empty_prefix does not resolve to \"\"".into());
    }
    if xot.prefix_str(xot.xml_prefix()) != "xml" {
        return Err("xml_prefix does not resolve to \"xml\"".into());
    }
    if xot.namespace_str(xot.xml_namespace()) != XML_NS {
        return Err("xml_namespace does not resolve to the XML namespace URI".into());
    }
    if xot.name_ns_str(xot.xml_space_name()) != ("space", XML_NS) {
        return Err("xml_space_name does not resolve to xml:space".into());
    }
    if xot.name_ns_str(xot.xml_id_name()) != ("id", XML_NS) {
        return Err("xml_id_name does not resolve to xml:id".into());
    }
    if xot.no_namespace() == xot.xml_namespace() {
        return Err("no_namespace == xml_namespace".into());
    }
    if xot.empty_prefix() == xot.xml_prefix() {
        return Err("empty_prefix == xml_prefix".into());
    }
    if xot.xml_space_name() == xot.xml_id_name() {
        return Err("xml:space == xml:id".into());
    }
    Ok(())
}

impl Property for C08 {
    fn id(&self) -> &'static str {
        "C08"
    }
    fn rule(&self) -> &'static str {
        "case = generated history of add_name/add_name_ns/add_namespace/add_prefix/parse/html5()/clone() steps plus bulk registrations of K fresh strings (K in {10,300,70000}); plan hist-parse centres on parsing: generated documents with shadowed / aliased prefixes, comments and PIs (every element, attribute and PI-target name must get the id of the expanded name the text denotes) and REJECTED documents that introduce new strings before the error (afterwards every earlier id is unchanged, any lookup that finds one of those strings resolves back to it, and strings registered next do not share an id with them); after every step the touched id and after every bulk/clone step ALL ids issued so far are compared with reference maps string<->id. Non-trivial = at least two kinds registered and at least one repeated registration; distinct by hash of the decoded step list. Label crossed65536 counts cases whose registrations of one kind exceed 2^16."
    }
    fn assumptions(&self) -> Vec<&'static str> {
        vec!["registrations stay below 2^17 per kind (memory/time bound of the tier)"]
    }
    fn plans(&self, tier: Tier) -> Vec<Plan> {
        let k = Knobs {
            max_ops: 40,
            ..Default::default()
        };
        match tier {
            Tier::Quick => vec![
                Plan {
                    name: "hist",
                    kind: PlanKind::Random {
                        cases: 320,
                        max_len: 160,
                    },
                    knobs: k,
                },
                Plan {
                    name: "hist-bulk",
                    kind: PlanKind::Random {
                        cases: 16,
                        max_len: 64,
                    },
                    knobs: Knobs {
                        max_ops: 12,
                        variant: 1,
                        ..Default::default()
                    },
                },
                Plan {
                    name: "hist-parse",
                    kind: PlanKind::Random {
                        cases: 150_000,
                        max_len: 400,
                    },
                    knobs: Knobs {
                        max_ops: 30,
                        variant: 2,
                        ..Default::default()
                    },
                },
            ],
            Tier::Thorough => vec![
                Plan {
                    name: "hist",
                    kind: PlanKind::Random {
                        cases: 6000,
                        max_len: 400,
                    },
                    knobs: Knobs {
                        max_ops: 120,
                        ..Default::default()
                    },
                },
                Plan {
                    name: "hist-bulk",
                    kind: PlanKind::Random {
                        cases: 96,
                        max_len: 64,
                    },
                    knobs: Knobs {
                        max_ops: 12,
                        variant: 1,
                        ..Default::default()
                    },
                },
                Plan {
                    name: "hist-parse",
                    kind: PlanKind::Random {
                        cases: 1_500_000,
                        max_len: 600,
                    },
                    knobs: Knobs {
                        max_ops: 60,
                        variant: 2,
                        ..Default::default()
                    },
                },
            ],
        }
    }

    fn check(&self, src: &mut Src, ctx: &mut Ctx) -> Verdict {
        // plan hist-parse also starts from the other ways to get an empty store
        let mut xot = if ctx.knobs.variant == 2 {
            match src.choice(3) {
                0 => Xot::new(),
                1 => {
                    ctx.label("start_from_default");
                    Xot::default()
                }
                _ => {
                    ctx.label("start_from_mem_take");
                    let mut a = Xot::new();
                    a.add_name("left-behind");
                    let b = std::mem::take(&mut a);
                    let _ = b;
                    a
                }
            }
        } else {
            Xot::new()
        };
        let mut m = Model {
            ns: HashMap::new(),
            pf: HashMap::new(),
            nm: HashMap::new(),
            bulk_counter: 0,
            ghost_names: vec![],
            ghost_prefixes: vec![],
            parsed_texts: vec![],
            html5_called: false,
        };
        if let Err(e) = builtin(&xot) {
            return Verdict::Fail(e);
        }
        // the built-ins are registrations too
        m.ns.insert(String::new(), xot.no_namespace());
        m.ns.insert(XML_NS.to_string(), xot.xml_namespace());
        m.pf.insert(String::new(), xot.empty_prefix());
        m.pf.insert("xml".into(), xot.xml_prefix());
        m.nm.insert(("space".into(), XML_NS.into()), xot.xml_space_name());
        m.nm.insert(("id".into(), XML_NS.into()), xot.xml_id_name());

        let nops = 1 + src.choice(ctx.knobs.max_ops.max(1));
        let mut log: Vec<String> = vec![];
        let mut kinds = [false; 3];
        let mut repeat = false;
        let mut crossed = false;
        let force_bulk = ctx.knobs.variant == 1;
        // variant 2: parse-centred histories (generated documents with PIs, rejected documents
        // that introduce new strings before the error), no 70 000-string bulk steps
        let parse_centred = ctx.knobs.variant == 2;
        let mut rejected = 0usize;
        for step in 0..nops {
            if src.exhausted() && step > 0 {
                break;
            }
            let op = if force_bulk && step == 0 {
                6
            } else if parse_centred {
                src.weighted(&[4, 3, 3, 2, 1, 1, 1, 6, 5])
            } else {
                src.weighted(&[6, 5, 5, 2, 2, 2, if force_bulk { 2 } else { 1 }, 4])
            };
            let r: Result<(), String> = (|| {
                match op {
                    0 => {
                        let pool = if parse_centred { STRS_WIDE } else { STRS };
                        let l = *src.pick(pool);
                        let n = if src.bool() { "" } else { *src.pick(pool) };
                        if m.nm.contains_key(&(l.to_string(), n.to_string())) {
                            repeat = true;
                        }
                        kinds[0] = true;
                        log.push(format!("add_name_ns({:?},{:?})", l, n));
                        reg_name(&mut xot, &mut m, l, n)?;
                    }
                    1 => {
                        let s = *src.pick(if parse_centred { STRS_WIDE } else { STRS });
                        if m.ns.contains_key(s) {
                            repeat = true;
                        }
                        kinds[1] = true;
                        log.push(format!("add_namespace({:?})", s));
                        reg_ns(&mut xot, &mut m, s)?;
                    }
                    2 => {
                        let s = *src.pick(if parse_centred { STRS_WIDE } else { STRS });
                        if m.pf.contains_key(s) {
                            repeat = true;
                        }
                        kinds[2] = true;
                        log.push(format!("add_prefix({:?})", s));
                        reg_pf(&mut xot, &mut m, s)?;
                    }
                    3 => {
                        // implicit registration by parsing
                        const DOCS: &[&str] = &[
                            "<a/>",
                            "<p:a xmlns:p='urn:a' p:b='1'/>",
                            "<a xmlns='urn:b'><b xml:space='preserve'/></a>",
                            "<é n0:x='' xmlns:n0='urn:zz'><?pi?></é>",
                        ];
                        let d = *src.pick(DOCS);
                        log.push(format!("parse({:?})", d));
                        m.parsed_texts.push(d.to_string());
                        xot.parse(d).map_err(|e| format!("parse of fixed doc failed: {}", e))?;
                        m.check_all(&xot, "after parse")?;
                    }
                    4 => {
                        log.push("html5()".into());
                        m.html5_called = true;
                        let _ = xot.html5();
                        m.check_all(&xot, "after html5()")?;
                    }
                    5 => {
                        log.push("clone()".into());
                        let c = xot.clone();
                        m.check_all(&c, "in clone")?;
                        // the built-in ids are part of the store
                        builtin(&c).map_err(|e| format!("in clone: {}", e))?;
                        if c.xml_id_name() != xot.xml_id_name() || c.xml_space_name() != xot.xml_space_name() || c.xml_namespace() != xot.xml_namespace()
                            || c.xml_prefix() != xot.xml_prefix() || c.empty_prefix() != xot.empty_prefix() || c.no_namespace() != xot.no_namespace()
                        {
                            return Err("a built-in id differs between a Xot and its clone".into());
                        }
                        builtin(&xot).map_err(|e| format!("after clone(): {}", e))?;
                        // registering in the clone must not disturb the original
                        let mut c = c;
                        c.add_name("only-in-clone");
                        c.add_namespace("urn:only-in-clone");
                        m.check_all(&xot, "original after registering in its clone")?;
                        if xot.name("only-in-clone").is_some() {
                            return Err("name registered in a clone is visible in the original".into());
                        }
                    }
                    7 => {
                        // implicit registration by parsing a generated document with
                        // shadowed / aliased prefixes: every name must get the id of
                        // the expanded name the text denotes
                        let mut o = gen::TreeOpts::xml(10);
                        o.alpha = gen::Alpha::Tiny;
                        o.attr_alpha = gen::Alpha::Tiny;
                        o.comments = parse_centred;
                        o.pis = parse_centred;
                        let t = gen::gen_element_tree(src, &o);
                        let r = render::render(src, &t, render::Style { prolog: false, cdata: false, line_ends: false, ..render::Style::rich() })
                            .map_err(|e| format!("harness: renderer: {}", e))?;
                        log.push(format!("parse({:?})", r.text));
                        m.parsed_texts.push(r.text.clone());
                        kinds[0] = true;
                        if parse_centred {
                            // look every name of the document up BEFORE it is parsed (most of them miss):
                            // the parser registers them on its own path, the lookups afterwards must see that
                            fn names_of(n: &crate::model::ANode, out: &mut Vec<crate::model::QName>) {
                                if let crate::model::ANode::Element(e) = n {
                                    out.push(e.name.clone());
                                    for (q, _) in &e.attrs {
                                        out.push(q.clone());
                                    }
                                }
                                for c in n.children() {
                                    names_of(c, out);
                                }
                            }
                            let mut qs = vec![];
                            names_of(&r.expected, &mut qs);
                            qs.reverse();
                            for q in qs {
                                let got = xot.namespace(&q.ns).and_then(|ns| xot.name_ns(&q.local, ns));
                                if let Some(id) = m.nm.get(&(q.local.clone(), q.ns.clone())) {
                                    if got != Some(*id) {
                                        return Err(format!("name_ns({}) before the parse is {:?}, registered as {:?}", q.show(), got, id));
                                    }
                                }
                                if q.ns.is_empty() && xot.name(&q.local) != got {
                                    return Err(format!("name({:?}) and name_ns({:?}, no namespace) disagree", q.local, q.local));
                                }
                            }
                        }
                        let doc = match xot.parse(&r.text) {
                            Ok(d) => d,
                            Err(_) => return Ok(()), // acceptance is C02's business
                        };
                        let mut names = vec![];
                        if collect_names(&xot, doc, &r.expected, &mut names) {
                            for (q, id) in names {
                                let (gl, gn) = xot.name_ns_str(id);
                                if gl != q.local || gn != q.ns {
                                    return Err(format!(
                                        "the name written as {} was given an id that resolves to ({:?},{:?})",
                                        q.show(), gl, gn
                                    ));
                                }
                                let key = (q.local.clone(), q.ns.clone());
                                match m.nm.get(&key) {
                                    Some(old) if *old != id => {
                                        return Err(format!("parsing registered {} under a second id", q.show()));
                                    }
                                    Some(_) => repeat = true,
                                    None => {
                                        m.nm.insert(key, id);
                                    }
                                }
                                let nsid = xot.namespace(&q.ns).ok_or_else(|| format!("namespace {:?} used in a parsed document is not registered", q.ns))?;
                                m.ns.entry(q.ns.clone()).or_insert(nsid);
                                if xot.name_ns(&q.local, nsid) != Some(id) {
                                    return Err(format!("name_ns does not find {} after parsing it", q.show()));
                                }
                            }
                        }
                        m.check_all(&xot, "after parsing a generated document")?;
                    }
                    8 => {
                        // a document that introduces new strings and is then rejected
                        rejected += 1;
                        let f = rejected;
                        let text = match src.choice(5) {
                            0 => format!("<f{f}a><f{f}b/></zz{f}>", f = f),
                            1 => format!("<q{f}:f{f}a xmlns:q{f}=\"urn:f{f}\"><f{f}b q{f}:f{f}c=\"v\"/>", f = f),
                            2 => format!("<f{f}a f{f}b=\"1\" f{f}b=\"2\"/>", f = f),
                            3 => format!("<f{f}a xmlns=\"urn:f{f}\"><?f{f}pi?><f{f}b>&f{f}ent;</f{f}b></f{f}a>", f = f),
                            _ => format!("<f{f}a><q{f}:f{f}b/></f{f}a>", f = f),
                        };
                        log.push(format!("parse({:?}) [to be rejected]", text));
                        m.parsed_texts.push(text.clone());
                        if xot.parse(&text).is_ok() {
                            return Err(format!("harness: {:?} was accepted", text));
                        }
                        for l in ["a", "b", "c", "pi"] {
                            for n in [String::new(), format!("urn:f{}", f)] {
                                m.ghost_names.push((format!("f{}{}", f, l), n));
                            }
                        }
                        m.ghost_names.push((format!("zz{}", f), String::new()));
                        m.ghost_prefixes.push(format!("q{}", f));
                        m.check_all(&xot, "after a rejected parse")?;
                        // the next new strings must not collide with anything the rejected parse left behind
                        let l = format!("h{}", f);
                        let n = if src.bool() { String::new() } else { format!("urn:h{}", f) };
                        kinds[0] = true;
                        log.push(format!("add_name_ns({:?},{:?})", l, n));
                        reg_name(&mut xot, &mut m, &l, &n)?;
                        let pf = format!("r{}", f);
                        reg_pf(&mut xot, &mut m, &pf)?;
                        m.check_all(&xot, "after registering new strings behind a rejected parse")?;
                    }
                    _ => {
                        let k = [10usize, 300, 70_000][src.weighted(&[2, 2, if force_bulk { 6 } else if parse_centred { 0 } else { 1 }])];
                        let kind = src.choice(3);
                        log.push(format!("bulk(kind={},k={})", kind, k));
                        kinds[kind] = true;
                        for _ in 0..k {
                            m.bulk_counter += 1;
                            let s = format!("g{}", m.bulk_counter);
                            match kind {
                                0 => {
                                    let nsid = xot.no_namespace();
                                    let id = xot.add_name_ns(&s, nsid);
                                    m.nm.insert((s, String::new()), id);
                                }
                                1 => {
                                    let id = xot.add_namespace(&s);
                                    m.ns.insert(s, id);
                                }
                                _ => {
                                    let id = xot.add_prefix(&s);
                                    m.pf.insert(s, id);
                                }
                            }
                        }
                        if m.nm.len() > 65536 || m.ns.len() > 65536 || m.pf.len() > 65536 {
                            crossed = true;
                        }
                        m.check_all(&xot, "after bulk registration")?;
                    }
                }
                Ok(())
            })();
            if let Err(e) = r {
                ctx.rendering(|| log.join("; "));
                return Verdict::Fail(format!("step {} ({}): {}", step, log.last().cloned().unwrap_or_default(), e));
            }
        }
        if let Err(e) = m.check_all(&xot, "at end of history") {
            ctx.rendering(|| log.join("; "));
            return Verdict::Fail(e);
        }
        if let Err(e) = builtin(&xot) {
            return Verdict::Fail(format!("after history: {}", e));
        }
        ctx.fingerprint(&log);
        ctx.nontrivial = kinds.iter().filter(|k| **k).count() >= 2 && repeat;
        if crossed {
            ctx.label("crossed65536");
            ctx.nontrivial = true;
        }
        ctx.rendering(|| log.join("; "));
        Verdict::Pass
    }
}
