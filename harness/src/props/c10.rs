//! C10 — serialisation never changes a name's meaning; missing prefixes can be repaired.

use xot::{Node, Xot};

use crate::bridge::{self, bounded, name_id};
use crate::engine::runner::guarded;
use crate::engine::{Ctx, Knobs, Plan, PlanKind, Property, Src, Tier, Verdict};
use crate::gen::{self, Alpha, Scoping, TreeOpts};
use crate::indep::xmltok;
use crate::model::{ANode, QName};
use crate::props::common::{same_tree, Cmp};

pub struct C10;

/// (a): Err, or text whose names — read independently of xot — are the tree's names
fn names_preserved(xot: &Xot, node: Node, what: &str) -> Result<Option<String>, String> {
    let model = bridge::read(xot, node)?;
    let s = match guarded(|| xot.to_string(node)).map_err(|p| format!("{}: to_string panicked: {}", what, p))? {
        Ok(s) => s,
        Err(_) => return Ok(None),
    };
    let got = xmltok::read_document(&s).map_err(|e| format!("{}: output {:?} is not well-formed / namespace-well-formed: {}", what, s, e))?;
    let want = match &model {
        ANode::Document(_) => model.clone(),
        other => ANode::Document(vec![other.clone()]),
    };
    same_tree(&got, &want, Cmp::no_decls()).map_err(|e| format!("{}: output {:?} read independently of xot denotes other names/content: {}", what, s, e))?;
    Ok(Some(s))
}

fn all_elements(xot: &Xot, root: Node) -> Result<Vec<Node>, String> {
    Ok(bounded(xot.descendants(root), 100_000, "descendants")?.into_iter().filter(|n| xot.is_element(*n)).collect())
}

/// remove contradictory own declarations (a no-namespace element declaring a default namespace on itself)
fn strip_contradictions(n: &mut ANode) {
    if let ANode::Element(e) = n {
        if e.name.ns.is_empty() {
            e.decls.retain(|(p, u)| !(p.is_empty() && !u.is_empty()));
        }
    }
    if let Some(ch) = n.children_mut() {
        for c in ch.iter_mut() {
            strip_contradictions(c);
        }
    }
}

impl Property for C10 {
    fn id(&self) -> &'static str {
        "C10"
    }
    fn rule(&self) -> &'static str {
        "(a) case = any tree with a free declaration layout (namespaced names with no, some, shadowed or default-only bindings, no-namespace elements under a default namespace) and a start node; to_string must be Err or produce text that an independent tokenizer + Namespaces resolver reads back with exactly the tree's element and attribute expanded names in document order. (b) case = repair history: a tree is disturbed by moving / cloning subtrees away from their declarations, removing declarations and adding names in fresh namespaces, then create_missing_prefixes(document | fragment | element) is called, up to 6 rounds; after every call to_string must succeed, reparse deep_equal, leave names/attributes/content unchanged, keep every earlier declaration with its URI, and pass check (a). Plans *-xml-rebound additionally bind the prefix xml to another namespace on some elements (no output may rely on such a declaration). Non-trivial = (a) a namespaced name without usable binding or a no-namespace element under a default namespace; (b) >= 2 rounds that each had something to repair. Distinct by hash of the tree / history."
    }
    fn plans(&self, tier: Tier) -> Vec<Plan> {
        let mk = |name: &'static str, cases, variant| Plan {
            name,
            kind: PlanKind::Random { cases, max_len: 1200 },
            knobs: Knobs { max_nodes: 24, max_ops: 6, variant, ..Default::default() },
        };
        match tier {
            Tier::Quick => vec![
                mk("names", 250_000, 0),
                mk("repair", 100_000, 1),
                mk("names-odd", 100_000, 2),
                mk("names-xml-rebound", 60_000, 3),
                mk("repair-xml-rebound", 40_000, 4),
            ],
            Tier::Thorough => vec![
                mk("names", 1_000_000, 0),
                mk("repair", 400_000, 1),
                mk("names-odd", 600_000, 2),
                mk("names-xml-rebound", 300_000, 3),
                mk("repair-xml-rebound", 200_000, 4),
            ],
        }
    }

    fn check(&self, src: &mut Src, ctx: &mut Ctx) -> Verdict {
        let mut o = TreeOpts::xml(ctx.knobs.max_nodes);
        o.alpha = Alpha::Tiny;
        o.attr_alpha = Alpha::Tiny;
        o.scoping = Scoping::Free;
        // xml:lang / xml:space attributes: the xml prefix is always bound and never declared
        o.xml_attrs = true;
        let mut doc = match src.weighted(&[4, 2, 3]) {
            0 => gen::gen_document(src, &o),
            1 => gen::gen_fragment(src, &o),
            _ => gen::gen_element_tree(src, &o),
        };
        if ctx.knobs.variant == 2 || ctx.knobs.variant == 3 {
            // plan names-odd: namespace names that need escaping where they are written (double quote,
            // apostrophe, TAB, LF, '<', '&'), and explicit declarations of the xml prefix
            const ODD: &[&str] = &["urn:q\"t'\tz", "urn:l\nf&<g>", "urn:s p", "http://x/?a=1&b=\"2\""];
            let from = ["urn:a", "urn:b", "urn:c"][src.choice(3)];
            let to = ODD[src.choice(ODD.len())];
            fn replace_uri(n: &mut ANode, from: &str, to: &str) {
                if let ANode::Element(e) = n {
                    if e.name.ns == from {
                        e.name.ns = to.to_string();
                    }
                    for (q, _) in e.attrs.iter_mut() {
                        if q.ns == from {
                            q.ns = to.to_string();
                        }
                    }
                    for (_, u) in e.decls.iter_mut() {
                        if u == from {
                            *u = to.to_string();
                        }
                    }
                }
                if let Some(ch) = n.children_mut() {
                    for c in ch.iter_mut() {
                        replace_uri(c, from, to);
                    }
                }
            }
            replace_uri(&mut doc, from, to);
            fn declare_xml(n: &mut ANode, src: &mut Src) {
                if let ANode::Element(e) = n {
                    if src.ratio(1, 4) && !e.decls.iter().any(|(p, _)| p == "xml") {
                        let at = src.choice(e.decls.len() + 1);
                        e.decls.insert(at, ("xml".to_string(), crate::model::XML_NS.to_string()));
                    }
                    // another prefix (or the default) bound to the XML namespace: not something XML can
                    // spell, but "any tree at all" includes it — the output must still use only bound prefixes
                    if src.ratio(1, 8) {
                        let p = ["p", "q", ""][src.choice(3)];
                        if !(p.is_empty() && e.name.ns.is_empty()) {
                            e.decls.retain(|(dp, _)| dp != p);
                            e.decls.push((p.to_string(), crate::model::XML_NS.to_string()));
                        }
                    }
                }
                if let Some(ch) = n.children_mut() {
                    for c in ch.iter_mut() {
                        declare_xml(c, src);
                    }
                }
            }
            declare_xml(&mut doc, src);
        }
        if ctx.knobs.variant >= 3 {
            // plans *-xml-rebound: the prefix xml declared as something else than the XML namespace
            // (Xot::set_namespace and the parser both allow it). XML cannot spell that, so the output
            // must not rely on such a declaration: a name written xml:… means the XML namespace to
            // every reader that follows Namespaces in XML
            fn rebind_xml(n: &mut ANode, src: &mut Src, top: bool) {
                if let ANode::Element(e) = n {
                    if src.ratio(1, if top { 2 } else { 6 }) {
                        let u = ["urn:a", "urn:b", "urn:c", "urn:x"][src.choice(4)];
                        e.decls.retain(|(p, _)| p != "xml");
                        let at = src.choice(e.decls.len() + 1);
                        e.decls.insert(at, ("xml".to_string(), u.to_string()));
                    }
                }
                if let Some(ch) = n.children_mut() {
                    for c in ch.iter_mut() {
                        rebind_xml(c, src, false);
                    }
                }
            }
            let is_doc = matches!(doc, ANode::Document(_));
            if is_doc {
                if let Some(ch) = doc.children_mut() {
                    for c in ch.iter_mut() {
                        rebind_xml(c, src, true);
                    }
                }
            } else {
                rebind_xml(&mut doc, src, true);
            }
        }
        let mut xot = Xot::new();
        if ctx.knobs.variant == 0 || ctx.knobs.variant == 2 || ctx.knobs.variant == 3 {
            let mut hs = vec![];
            let root = match bridge::build(&mut xot, &doc, &mut hs) {
                Ok(r) => r,
                Err(e) => return Verdict::Fail(format!("harness: {}", e)),
            };
            ctx.fingerprint(&doc);
            ctx.rendering(|| doc.show());
            let els = match all_elements(&xot, root) {
                Ok(e) => e,
                Err(e) => return Verdict::Fail(e),
            };
            let start = if els.is_empty() || src.bool() { root } else { els[src.choice_big(els.len())] };
            match names_preserved(&xot, start, "to_string") {
                Ok(Some(_)) => {
                    ctx.label("serialised");
                }
                Ok(None) => {
                    ctx.label("refused");
                    ctx.nontrivial = true;
                }
                Err(e) => return Verdict::Fail(e),
            }
            // non-triviality: is there a no-ns element under a default namespace?
            fn risky(n: &ANode, default: bool) -> bool {
                match n {
                    ANode::Element(e) => {
                        let mut d = default;
                        for (p, u) in &e.decls {
                            if p.is_empty() {
                                d = !u.is_empty();
                            }
                        }
                        (e.name.ns.is_empty() && d) || e.children.iter().any(|c| risky(c, d))
                    }
                    _ => n.children().iter().any(|c| risky(c, default)),
                }
            }
            if risky(&doc, false) {
                ctx.label("no_ns_element_under_default_ns");
                ctx.nontrivial = true;
            }
            return Verdict::Pass;
        }
        // (b) repair histories
        strip_contradictions(&mut doc);
        let mut hs = vec![];
        let root = match bridge::build(&mut xot, &doc, &mut hs) {
            Ok(r) => r,
            Err(e) => return Verdict::Fail(format!("harness: {}", e)),
        };
        let mut log: Vec<String> = vec![format!("start {}", doc.show())];
        let rounds = 1 + src.choice(ctx.knobs.max_ops.max(1));
        let mut repaired_rounds = 0;
        let mut fresh = 0;
        for round in 0..rounds {
            if round > 0 && src.exhausted() {
                break;
            }
            // disturb
            let nd = 1 + src.choice(3);
            for _ in 0..nd {
                let els = match all_elements(&xot, root) {
                    Ok(e) => e,
                    Err(e) => return Verdict::Fail(e),
                };
                if els.is_empty() {
                    break;
                }
                let a = els[src.choice_big(els.len())];
                let b = els[src.choice_big(els.len())];
                match src.choice(5) {
                    0 => {
                        // move a away from its declarations, under b
                        if a != b && !xot.ancestors(b).any(|x| x == a) {
                            log.push("move element under another".into());
                            if let Err(e) = xot.append(b, a) {
                                return Verdict::Fail(format!("harness: move refused: {}", e));
                            }
                        }
                    }
                    1 => {
                        log.push("clone element and append the copy elsewhere".into());
                        let c = xot.clone_node(a);
                        if let Err(e) = xot.append(b, c) {
                            return Verdict::Fail(format!("harness: append of clone refused: {}", e));
                        }
                    }
                    2 => {
                        fresh += 1;
                        let q = QName::new(&format!("urn:new{}", fresh), "n");
                        log.push(format!("append element {}", q.show()));
                        let id = name_id(&mut xot, &q);
                        let _ = xot.append_element(a, id);
                    }
                    3 => {
                        fresh += 1;
                        let q = QName::new(&format!("urn:new{}", fresh), "k");
                        log.push(format!("set attribute {}", q.show()));
                        let id = name_id(&mut xot, &q);
                        xot.set_attribute(a, id, "v".to_string());
                    }
                    _ => {
                        let keys: Vec<_> = xot.namespaces(a).keys().take(100).collect();
                        if !keys.is_empty() {
                            let k = keys[src.choice_big(keys.len())];
                            log.push(format!("remove declaration of prefix {:?}", xot.prefix_str(k)));
                            xot.namespaces_mut(a).remove(k);
                        }
                    }
                }
            }
            // target of the repair
            let els = match all_elements(&xot, root) {
                Ok(e) => e,
                Err(e) => return Verdict::Fail(e),
            };
            let target = if els.is_empty() || src.ratio(2, 3) {
                root
            } else {
                els[src.choice_big(els.len())]
            };
            if !xot.is_element(target) && !xot.is_document(target) {
                continue;
            }
            // a tree no prefix can repair: a no-namespace element that declares a default namespace on itself
            let contradictory = bounded(xot.descendants(target), 100_000, "descendants").map(|v| {
                v.into_iter().any(|n| {
                    xot.element(n).map(|e| xot.namespace_for_name(e.name()) == xot.no_namespace()).unwrap_or(false)
                        && xot.namespaces(n).get(xot.empty_prefix()).map(|u| *u != xot.no_namespace()).unwrap_or(false)
                })
            });
            if contradictory != Ok(false) {
                ctx.label("contradictory_default_declaration");
                break;
            }
            let before = match bridge::read(&xot, target) {
                Ok(b) => b,
                Err(e) => return Verdict::Fail(e),
            };
            let needed = guarded(|| xot.to_string(target)).map(|r| r.is_err()).unwrap_or(true);
            log.push(format!("create_missing_prefixes({})", if target == root { "root" } else { "element" }));
            match guarded(|| xot.create_missing_prefixes(target)) {
                Ok(Ok(())) => {}
                Ok(Err(e)) => {
                    ctx.rendering(|| log.join("; "));
                    return Verdict::Fail(format!("create_missing_prefixes returned Err({}) on a document/element", e));
                }
                Err(p) => {
                    ctx.rendering(|| log.join("; "));
                    return Verdict::Fail(format!("create_missing_prefixes panicked: {}", p));
                }
            }
            let r: Result<(), String> = (|| {
                let after = bridge::read(&xot, target)?;
                same_tree(&after, &before, Cmp::no_decls()).map_err(|e| format!("create_missing_prefixes changed names or content: {}", e))?;
                // every earlier declaration is still there with the same URI
                fn decls_kept(b: &ANode, a: &ANode) -> Result<(), String> {
                    if let (ANode::Element(eb), ANode::Element(ea)) = (b, a) {
                        for (p, u) in &eb.decls {
                            if !ea.decls.iter().any(|(p2, u2)| p2 == p && u2 == u) {
                                return Err(format!("declaration {:?}={:?} on <{}> was removed or altered", p, u, eb.name.show()));
                            }
                        }
                    }
                    for (x, y) in b.children().iter().zip(a.children().iter()) {
                        decls_kept(x, y)?;
                    }
                    Ok(())
                }
                decls_kept(&before, &after)?;
                let s = match names_preserved(&xot, target, "after create_missing_prefixes")? {
                    Some(s) => s,
                    None => {
                        let e = xot.to_string(target).err().map(|e| e.to_string()).unwrap_or_default();
                        return Err(format!("to_string still fails after create_missing_prefixes: {} (tree {})", e, after.show()));
                    }
                };
                let re = guarded(|| if xot.is_document(target) { xot.parse_fragment(&s) } else { xot.parse(&s) })
                    .map_err(|p| format!("reparse panicked: {}", p))?
                    .map_err(|e| format!("output {:?} after repair is rejected: {}", s, e))?;
                let re_cmp = if xot.is_document(target) { re } else { xot.document_element(re).map_err(|e| e.to_string())? };
                if !xot.deep_equal(target, re_cmp) {
                    return Err(format!("output {:?} after repair does not reparse deep_equal", s));
                }
                Ok(())
            })();
            if let Err(e) = r {
                ctx.rendering(|| log.join("; "));
                return Verdict::Fail(format!("round {}: {}", round, e));
            }
            if needed {
                repaired_rounds += 1;
            }
        }
        ctx.fingerprint(&log);
        ctx.nontrivial = repaired_rounds >= 2;
        if repaired_rounds >= 1 {
            ctx.label("something_repaired");
        }
        ctx.rendering(|| log.join("; "));
        Verdict::Pass
    }
}
