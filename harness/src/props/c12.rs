//! C12 — a clone is equal to its source and shares nothing with it.

use std::collections::{BTreeMap, HashSet};

use xot::{Node, Xot};

use crate::bridge::{self, bounded};
use crate::engine::runner::guarded;
use crate::engine::{Ctx, Knobs, Plan, PlanKind, Property, Src, Tier, Verdict};
use crate::gen::{self, Alpha, Scoping, TreeOpts};
use crate::hist::{self, Op};
use crate::indep::xmltok;
use crate::model::forest::Effect;
use crate::model::ANode;
use crate::props::c05::{apply_model, gen_valid_op_pub, Sim};
use crate::props::common::{same_tree, Cmp};

pub struct C12;

fn operands(op: &Op) -> Vec<usize> {
    use Op::*;
    match op {
        Append(a, b) | Prepend(a, b) | InsertAfter(a, b) | InsertBefore(a, b) | Replace(a, b) | AppendAttrNode(a, b) | AppendNsNode(a, b) | AnyAppend(a, b) => vec![*a, *b],
        Detach(a) | Remove(a) | Wrap(a, _) | Unwrap(a) | CloneNode(a) | CloneWithPrefixes(a) | AttrInsert(a, ..) | AttrRemove(a, ..) | AttrClear(a)
        | AttrGetMut(a, ..) | SetAttribute(a, ..) | RemoveAttribute(a, ..) | AttrEntryOrInsert(a, ..) | NsInsert(a, ..) | NsRemove(a, ..) | NsClear(a)
        | SetNamespace(a, ..) | AppendNamespace(a, ..) | ElementMutSetName(a, ..) | PiSetTarget(a, ..) | RemoveNamespace(a, ..) | SetElementName(a, ..) | TextSet(a, ..) | CommentSet(a, ..) | PiSetData(a, ..) | AttrNodeSet(a, ..)
        | NsNodeSet(a, ..) | TextContentSet(a, ..) | AppendText(a, ..) | AppendElement(a, ..) | AppendComment(a, ..) | AppendPi(a, ..) | NewDocWithElement(a)
        | RemoveWs(a) | CreateMissingPrefixes(a) | Dedup(a) => vec![*a],
        New(_) | Parse(_) | ParseFragment(_) | SetConsolidation(_) => vec![],
    }
}

fn element_nodes(xot: &Xot, root: Node) -> Vec<Node> {
    xot.descendants(root).take(100_000).filter(|n| xot.is_element(*n)).collect()
}

impl Property for C12 {
    fn id(&self) -> &'static str {
        "C12"
    }
    fn rule(&self) -> &'static str {
        "(clone_node) case = forest (all 7 node kinds as sources; adjacent text nodes made while consolidation was off; consolidation on or off at clone time) + source node + history of valid mutations confined to ONE side (source tree or clone). The clone must be parentless, read back equal to the model's copy (adjacent text merged iff consolidation is on; same declaration and attribute order), consist only of handles never seen before, leave the source untouched, and after every later mutation of one side the whole store - hence the other side - must equal the reference forest. (clone_with_prefixes) for an element of a generated tree: the clone's declarations include the element's own, and whenever the source tree serialises in place the clone serialises alone to text that an independent reader resolves to the same expanded names. (Xot::clone) every live handle reads back equal in the copy and mutating either store leaves the other's read-backs unchanged. Non-trivial = source subtree with >= 3 nodes and an attribute or namespace node, followed by at least one effective mutation. Distinct by hash of (forest, source, ops)."
    }
    fn plans(&self, tier: Tier) -> Vec<Plan> {
        let mk = |name: &'static str, cases, variant| Plan {
            name,
            kind: PlanKind::Random { cases, max_len: 1000 },
            knobs: Knobs { max_nodes: 24, max_ops: 12, variant, ..Default::default() },
        };
        match tier {
            Tier::Quick => vec![mk("clone_node", 60_000, 0), mk("clone_with_prefixes", 400_000, 1), mk("cwp-stripped", 300_000, 3), mk("xot_clone", 20_000, 2), mk("clone_node-xml-decls", 40_000, 4), mk("cwp-xml-rebound", 100_000, 5)],
            Tier::Thorough => vec![mk("clone_node", 600_000, 0), mk("clone_with_prefixes", 2_000_000, 1), mk("cwp-stripped", 1_500_000, 3), mk("xot_clone", 100_000, 2), mk("clone_node-xml-decls", 300_000, 4), mk("cwp-xml-rebound", 600_000, 5)],
        }
    }

    fn check(&self, src: &mut Src, ctx: &mut Ctx) -> Verdict {
        match ctx.knobs.variant {
            0 | 4 => self.clone_node(src, ctx),
            1 => self.clone_with_prefixes(src, ctx, false, false),
            3 => self.clone_with_prefixes(src, ctx, true, false),
            5 => self.clone_with_prefixes(src, ctx, false, true),
            _ => self.xot_clone(src, ctx),
        }
    }
}

impl C12 {
    fn clone_node(&self, src: &mut Src, ctx: &mut Ctx) -> Verdict {
        let mut sim = Sim::new();
        let start = hist::gen_start_forest(src, false, ctx.knobs.max_nodes);
        for t in &start {
            if let Err(e) = sim.add_start(t) {
                return Verdict::Fail(format!("harness: {}", e));
            }
        }
        let mut log = vec![];
        // optionally create adjacent text while consolidation is off
        if src.ratio(1, 3) {
            if let Err(e) = crate::props::c05::adjacent_text_setup(&mut sim, src, &mut log) {
                return Verdict::Fail(e);
            }
        }
        if ctx.knobs.variant == 4 {
            // plan clone_node-xml-decls: explicit declarations of the xml prefix — namespace nodes like any
            // other, a clone has them too
            let els: Vec<usize> = sim.model.alive().into_iter().filter(|n| sim.model.is_element(*n)).collect();
            for e in els {
                if src.ratio(1, 3) {
                    let op = Op::NsInsert(e, "xml".to_string(), crate::model::XML_NS.to_string());
                    let eff = apply_model(&mut sim.model, &op);
                    sim.grow();
                    let hs = sim.h.clone();
                    let hf = move |i: usize| hs[i].expect("unbound");
                    hist::exec(&mut sim.xot, &op, &hf);
                    if let Err(er) = sim.compare(&eff) {
                        return Verdict::Fail(format!("harness: declaring the xml prefix: {}", er));
                    }
                    ctx.label("explicit_xml_prefix_declaration");
                }
            }
        }
        let alive = sim.model.alive();
        let source = alive[src.choice_big(alive.len())];
        let known_before: HashSet<Node> = sim.known.all.iter().copied().collect();
        let before = sim.model.clone();
        let op = Op::CloneNode(source);
        log.push(format!("clone_node(n{} = {})", source, sim.model.nodes[source].val.show()));
        let eff = apply_model(&mut sim.model, &op);
        let hsrc = sim.handle(source);
        let c = match guarded(|| sim.xot.clone_node(hsrc)) {
            Ok(c) => c,
            Err(p) => return Verdict::Fail(format!("clone_node panicked: {}", p)),
        };
        let croot = eff.ret.unwrap();
        sim.bind(croot, c);
        if sim.xot.parent(c).is_some() {
            return Verdict::Fail("the clone has a parent".into());
        }
        if let Err(e) = sim.compare(&eff) {
            ctx.rendering(|| log.join("; "));
            return Verdict::Fail(format!("after clone_node: {} [model before: {}]", e, before.show()));
        }
        // made entirely of new nodes
        for id in sim.model.subtree(croot) {
            let h = sim.handle(id);
            if known_before.contains(&h) {
                ctx.rendering(|| log.join("; "));
                return Verdict::Fail(format!("clone contains handle {:?} that existed before the clone was made", h));
            }
        }
        let src_size = sim.model.subtree(source).len();
        let has_special = sim.model.subtree(source).iter().any(|n| sim.model.cat(*n) != 2);
        // mutation history confined to one side
        let src_root = sim.model.root_of(source);
        let side_root = if src.bool() { src_root } else { croot };
        let mut effective = 0;
        let nops = 1 + src.choice(ctx.knobs.max_ops.max(1));
        let mut attempts = 0;
        let mut done = 0;
        let mut executed = vec![];
        while done < nops && attempts < 6 * nops + 10 {
            attempts += 1;
            if attempts > 1 && src.exhausted() {
                break;
            }
            let op = match gen_valid_op_pub(src, &sim.model, false, ctx) {
                Some(o) => o,
                None => continue,
            };
            let ops = operands(&op);
            if ops.is_empty() || !ops.iter().all(|o| sim.model.nodes[*o].alive && sim.model.root_of(*o) == sim.model.root_of(side_root)) {
                continue;
            }
            if !sim.model.nodes[side_root].alive {
                break;
            }
            done += 1;
            log.push(op.show());
            executed.push(op.clone());
            let before = sim.model.clone();
            let eff = apply_model(&mut sim.model, &op);
            sim.h.resize(sim.model.nodes.len(), None);
            let hs = sim.h.clone();
            let hf = move |i: usize| hs[i].expect("unbound");
            match guarded(|| hist::exec(&mut sim.xot, &op, &hf)) {
                Ok(hist::Outcome::Err(_)) => {
                    sim.model = before;
                    if let Err(e) = sim.compare(&Effect::default()) {
                        ctx.rendering(|| log.join("; "));
                        return Verdict::Fail(format!("{}: refused and changed something: {}", op.show(), e));
                    }
                    continue;
                }
                Ok(hist::Outcome::Node(n)) => {
                    if let Some(r) = eff.ret {
                        sim.bind(r, n);
                    }
                }
                Ok(_) => {}
                Err(_) => return Verdict::Pass, // C06 owns panics
            }
            if let Err(e) = sim.compare(&eff) {
                ctx.rendering(|| log.join("; "));
                return Verdict::Fail(format!(
                    "after {} on the {} side the store differs from the model (the other side must be untouched): {}",
                    op.show(),
                    if side_root == croot { "clone" } else { "source" },
                    e
                ));
            }
            effective += 1;
        }
        ctx.fingerprint(&(start, source, executed));
        ctx.nontrivial = src_size >= 3 && has_special && effective >= 1;
        ctx.label(match sim.model.nodes[source].val.kind() {
            crate::model::Kind::Document => "source_document",
            crate::model::Kind::Element => "source_element",
            crate::model::Kind::Text => "source_text",
            crate::model::Kind::Comment => "source_comment",
            crate::model::Kind::PI => "source_pi",
            crate::model::Kind::Attribute => "source_attribute",
            crate::model::Kind::Namespace => "source_namespace",
        });
        ctx.rendering(|| log.join("; "));
        Verdict::Pass
    }

    fn clone_with_prefixes(&self, src: &mut Src, ctx: &mut Ctx, stripped: bool, rebound: bool) -> Verdict {
        let mut o = TreeOpts::xml(ctx.knobs.max_nodes);
        o.alpha = Alpha::Tiny;
        o.attr_alpha = Alpha::Tiny;
        o.scoping = if stripped || src.ratio(3, 4) { Scoping::Well } else { Scoping::Free };
        o.xml_attrs = true;
        // alias prefixes and re-declarations make "bound outside, shadowed inside" layouts frequent
        o.redundant_decls = src.bool();
        o.max_depth = 7;
        let mut doc = if src.bool() { gen::gen_document(src, &o) } else { gen::gen_element_tree(src, &o) };
        if stripped {
            // plan cwp-stripped: the layout only the API can build and the serializer repairs on
            // the fly — no-namespace elements below a default namespace WITHOUT their protecting
            // xmlns="" — in an otherwise well-scoped tree, so that the source does serialise in
            // place; extra default declarations make the situation frequent
            fn strip(n: &mut ANode, src: &mut Src) {
                if let ANode::Element(e) = n {
                    if e.name.ns.is_empty() && src.ratio(3, 4) {
                        e.decls.retain(|(p, u)| !(p.is_empty() && u.is_empty()));
                    }
                    if !e.name.ns.is_empty() && !e.decls.iter().any(|(p, _)| p.is_empty()) && src.ratio(1, 3) {
                        e.decls.push((String::new(), e.name.ns.clone()));
                    }
                }
                if let Some(ch) = n.children_mut() {
                    for c in ch.iter_mut() {
                        strip(c, src);
                    }
                }
            }
            strip(&mut doc, src);
        }
        if rebound {
            // plan cwp-xml-rebound: the prefix xml declared as another namespace on some elements — a
            // declaration nothing can be written with; the copy needs a real prefix for that namespace
            fn rebind_xml(n: &mut ANode, src: &mut Src, top: bool) {
                if let ANode::Element(e) = n {
                    if src.ratio(1, if top { 2 } else { 5 }) {
                        let u = ["urn:a", "urn:b", "urn:c"][src.choice(3)];
                        e.decls.retain(|(p, _)| p != "xml");
                        let at = src.choice(e.decls.len() + 1);
                        e.decls.insert(at, ("xml".to_string(), u.to_string()));
                    }
                }
                if let Some(ch) = n.children_mut() {
                    for c in ch.iter_mut() {
                        rebind_xml(c, src, false);
                    }
                }
            }
            if matches!(doc, ANode::Document(_)) {
                if let Some(ch) = doc.children_mut() {
                    for c in ch.iter_mut() {
                        rebind_xml(c, src, true);
                    }
                }
            } else {
                rebind_xml(&mut doc, src, true);
            }
            ctx.label("xml_prefix_bound_to_another_namespace");
        }
        let mut xot = Xot::new();
        let mut hs = vec![];
        let root = match bridge::build(&mut xot, &doc, &mut hs) {
            Ok(r) => r,
            Err(e) => return Verdict::Fail(format!("harness: {}", e)),
        };
        let els = element_nodes(&xot, root);
        if els.is_empty() {
            return Verdict::Pass;
        }
        let mut e = els[src.choice_big(els.len())];
        // rare layout made frequent: a no-namespace element below a default namespace (which the
        // serializer undeclares in place) whose descendants use the outer namespaces
        let under_default: Vec<Node> = els
            .iter()
            .copied()
            .filter(|n| {
                xot.element(*n).map(|el| xot.namespace_for_name(el.name()) == xot.no_namespace()).unwrap_or(false)
                    && xot
                        .ancestors(*n)
                        .take(10_000)
                        .find_map(|a| if xot.is_element(a) { xot.namespaces(a).get(xot.empty_prefix()).copied() } else { None })
                        .map(|u| u != xot.no_namespace())
                        .unwrap_or(false)
            })
            .collect();
        if !under_default.is_empty() && src.ratio(1, 3) {
            e = under_default[src.choice_big(under_default.len())];
            ctx.label("no_ns_element_under_default_ns");
        }
        // ... or an ancestor of such an element: inside the clone the default namespace is then
        // undeclared for a subtree whose names may need a prefix from outside the clone
        if !under_default.is_empty() && src.ratio(1, 3) {
            let u = under_default[src.choice_big(under_default.len())];
            let ups: Vec<Node> = xot.ancestors(u).take(10_000).filter(|a| *a != u && xot.is_element(*a)).collect();
            if !ups.is_empty() {
                e = ups[src.choice_big(ups.len())];
                ctx.label("clone_contains_no_ns_element_under_default_ns");
            }
        }
        ctx.fingerprint(&(doc.clone(), els.iter().position(|x| *x == e)));
        ctx.rendering(|| doc.show());
        let in_place_ok = matches!(guarded(|| xot.to_string(root)), Ok(Ok(_)));
        let known: HashSet<Node> = xot.all_descendants(root).take(100_000).collect();
        let source_before = match bridge::read(&xot, root) {
            Ok(b) => b,
            Err(e) => return Verdict::Fail(e),
        };
        let model_e = match bridge::read(&xot, e) {
            Ok(b) => b,
            Err(e) => return Verdict::Fail(e),
        };
        let c = match guarded(|| xot.clone_with_prefixes(e)) {
            Ok(c) => c,
            Err(p) => return Verdict::Fail(format!("clone_with_prefixes panicked: {}", p)),
        };
        let r: Result<(), String> = (|| {
            if xot.parent(c).is_some() {
                return Err("the clone has a parent".into());
            }
            for n in bounded(xot.all_descendants(c), 100_000, "all_descendants")? {
                if known.contains(&n) {
                    return Err("the clone shares a node with the source".into());
                }
            }
            let after = bridge::read(&xot, root)?;
            if after != source_before {
                return Err("cloning changed the source tree".into());
            }
            let got = bridge::read(&xot, c)?;
            same_tree(&got, &model_e, Cmp::no_decls()).map_err(|e| format!("clone differs from the source element: {}", e))?;
            // declarations: superset of the element's own, attribute order kept
            if let (ANode::Element(ge), ANode::Element(me)) = (&got, &model_e) {
                let gm: BTreeMap<&String, &String> = ge.decls.iter().map(|(p, u)| (p, u)).collect();
                for (p, u) in &me.decls {
                    if gm.get(p) != Some(&u) {
                        return Err(format!("the clone lost or changed the element's own declaration {:?}={:?}", p, u));
                    }
                }
                if ge.attrs != me.attrs {
                    return Err("attribute order differs in the clone".into());
                }
                // the element's own declarations keep their relative order; added ones may go anywhere
                let own_in_clone: Vec<&(String, String)> = ge.decls.iter().filter(|d| me.decls.contains(d)).collect();
                let own: Vec<&(String, String)> = me.decls.iter().collect();
                if own_in_clone != own {
                    return Err(format!("the clone lists the element's own declarations as {:?}, the source has {:?}", own_in_clone, own));
                }
                // below the cloned element nothing is added or removed: same declarations, same order
                for (gc, mc) in ge.children.iter().zip(me.children.iter()) {
                    same_tree(gc, mc, Cmp::exact()).map_err(|e| format!("below the cloned element the clone differs from the source (declarations included): {}", e))?;
                }
            }
            if in_place_ok {
                ctx.nontrivial = crate::props::common::has_decls(&doc) && model_e.count() >= 3;
                let s = guarded(|| xot.to_string(c))
                    .map_err(|p| format!("to_string(clone) panicked: {}", p))?
                    .map_err(|e| format!("the source serialises in place but the clone_with_prefixes copy does not serialise on its own: {} (clone {})", e, got.show()))?;
                let read = xmltok::read_document(&s).map_err(|e| format!("clone output {:?}: {}", s, e))?;
                let want = ANode::Document(vec![model_e.clone()]);
                same_tree(&read, &want, Cmp::no_decls()).map_err(|e| format!("clone output {:?} denotes other names: {}", s, e))?;
            } else {
                ctx.label("source_not_serialisable");
            }
            Ok(())
        })();
        match r {
            Ok(()) => Verdict::Pass,
            Err(e) => Verdict::Fail(e),
        }
    }

    fn xot_clone(&self, src: &mut Src, ctx: &mut Ctx) -> Verdict {
        let mut sim = Sim::new();
        let start = hist::gen_start_forest(src, false, ctx.knobs.max_nodes);
        for t in &start {
            if let Err(e) = sim.add_start(t) {
                return Verdict::Fail(format!("harness: {}", e));
            }
        }
        // a parsed document with xml:id attributes: the id index is part of the store
        // (not part of the model forest; nothing below mutates it before the final step)
        let id_doc = match sim.xot.parse("<r xml:id=\"top\"><a xml:id=\"i1\"><c xml:id=\"deep\"/></a><b xml:id=\" i2 \"/></r>") {
            Ok(d) => d,
            Err(e) => return Verdict::Fail(format!("harness: {}", e)),
        };
        const IDS: &[&str] = &["top", "i1", "deep", "i2", "absent"];
        let id_view = |x: &Xot| -> Vec<Option<Node>> { IDS.iter().map(|i| x.xml_id_node(id_doc, i)).collect() };
        let ids_before = id_view(&sim.xot);
        if ids_before[..4].iter().any(|n| n.is_none()) || ids_before[4].is_some() {
            return Verdict::Fail(format!("harness: xml_id_node on the parsed id document gives {:?}", ids_before));
        }
        // clone_node of that document: whatever xml_id_node answers for the clone must lie inside
        // the clone (a clone is made entirely of new nodes) — None is fine
        {
            let source_nodes: HashSet<Node> = sim.xot.all_descendants(id_doc).take(10_000).collect();
            let cd = sim.xot.clone_node(id_doc);
            for i in IDS {
                if let Some(n) = sim.xot.xml_id_node(cd, i) {
                    if source_nodes.contains(&n) || !sim.xot.ancestors(n).take(10_000).any(|a| a == cd) {
                        return Verdict::Fail(format!("xml_id_node(clone_node(document), {:?}) returns a node that is not part of the clone", i));
                    }
                }
            }
            if id_view(&sim.xot) != ids_before {
                return Verdict::Fail("clone_node of a document changed what xml_id_node answers for the source".into());
            }
            let _ = sim.xot.remove(cd);
        }
        let copy = sim.xot.clone();
        if id_view(&copy) != ids_before {
            return Verdict::Fail(format!("xml_id_node in the cloned Xot gives {:?}, in the original {:?} (ids {:?})", id_view(&copy), ids_before, IDS));
        }
        let roots: Vec<Node> = sim.model.roots().into_iter().map(|r| sim.handle(r)).collect();
        let read_all = |x: &Xot| -> Result<Vec<ANode>, String> { roots.iter().map(|r| bridge::read(x, *r)).collect() };
        let orig_view = match read_all(&sim.xot) {
            Ok(v) => v,
            Err(e) => return Verdict::Fail(e),
        };
        match read_all(&copy) {
            Ok(v) => {
                if v != orig_view {
                    return Verdict::Fail("a handle reads back differently in the cloned Xot".into());
                }
            }
            Err(e) => return Verdict::Fail(format!("in the cloned Xot: {}", e)),
        }
        // mutate the original, the copy must not move
        let mut log = vec![];
        let nops = 1 + src.choice(ctx.knobs.max_ops.max(1));
        let mut attempts = 0;
        let mut done = 0;
        while done < nops && attempts < 4 * nops + 8 {
            attempts += 1;
            if attempts > 1 && src.exhausted() {
                break;
            }
            let op = match gen_valid_op_pub(src, &sim.model, false, ctx) {
                Some(o) => o,
                None => continue,
            };
            done += 1;
            log.push(op.show());
            let before = sim.model.clone();
            let eff = apply_model(&mut sim.model, &op);
            sim.h.resize(sim.model.nodes.len(), None);
            let hs = sim.h.clone();
            let hf = move |i: usize| hs[i].expect("unbound");
            match guarded(|| hist::exec(&mut sim.xot, &op, &hf)) {
                Ok(hist::Outcome::Err(_)) => {
                    sim.model = before;
                    continue;
                }
                Ok(hist::Outcome::Node(n)) => {
                    if let Some(r) = eff.ret {
                        sim.bind(r, n);
                    }
                }
                Ok(_) => {}
                Err(_) => return Verdict::Pass,
            }
            if sim.compare(&eff).is_err() {
                return Verdict::Pass; // C05 owns this
            }
        }
        match read_all(&copy) {
            Ok(v) => {
                if v != orig_view {
                    ctx.rendering(|| log.join("; "));
                    return Verdict::Fail("mutating the original Xot changed what the cloned Xot holds".into());
                }
            }
            Err(e) => return Verdict::Fail(format!("in the cloned Xot after mutating the original: {}", e)),
        }
        // and the other way round
        let now = match sim.compare(&Effect::default()) {
            Ok(()) => true,
            Err(_) => false,
        };
        let mut copy = copy;
        for r in &roots {
            if copy.is_element(*r) || copy.is_document(*r) {
                let _ = copy.append_text(*r, "only in the copy");
            }
        }
        copy.add_name("only-in-copy");
        // removing an identified element in the original leaves the copy's index alone
        if let Some(a) = ids_before[1] {
            if sim.xot.remove(a).is_ok() && id_view(&copy) != ids_before {
                return Verdict::Fail("removing an element with an xml:id from the original changed xml_id_node in the cloned Xot".into());
            }
        }
        if now {
            if let Err(e) = sim.compare(&Effect::default()) {
                return Verdict::Fail(format!("mutating the cloned Xot changed the original: {}", e));
            }
        }
        ctx.fingerprint(&(start, log.clone()));
        ctx.nontrivial = done >= 1 && roots.len() >= 1;
        ctx.rendering(|| log.join("; "));
        Verdict::Pass
    }
}
