//! C11 — attribute and namespace views behave as insertion-ordered maps.

use xot::output::Output;
use xot::{Entry, NameId, NamespaceId, Node, PrefixId, Xot};

use crate::bridge::{bounded, name_id, qname_of};
use crate::engine::runner::guarded;
use crate::engine::{Ctx, Knobs, Plan, PlanKind, Property, Src, Tier, Verdict};
use crate::indep::xmltok::{self, Tok};
use crate::model::{QName, XML_NS};

pub struct C11;

#[derive(PartialEq, Debug, Clone)]
struct Obs {
    len: usize,
    is_empty: bool,
    iter: Vec<(String, String)>,
    keys: Vec<String>,
    values: Vec<String>,
    nodes: Vec<Node>,
    to_vec: Vec<(String, String)>,
    to_hashmap: Vec<(String, String)>,
    per_key: Vec<(String, bool, Option<String>, Option<Node>)>,
}

const LIM: usize = 64;

macro_rules! observe {
    ($view:expr, $xot:expr, $kshow:expr, $vshow:expr, $pool:expr) => {{
        let v = $view;
        let kshow = $kshow;
        let vshow = $vshow;
        let iter: Vec<(String, String)> = bounded(v.iter(), LIM, "iter")?
            .into_iter()
            .map(|(k, val)| (kshow($xot, k), vshow($xot, val)))
            .collect();
        let keys: Vec<String> = bounded(v.keys(), LIM, "keys")?
            .into_iter()
            .map(|k| kshow($xot, k))
            .collect();
        let values: Vec<String> = bounded(v.values(), LIM, "values")?
            .into_iter()
            .map(|val| vshow($xot, val))
            .collect();
        let nodes: Vec<Node> = bounded(v.nodes(), LIM, "nodes")?;
        let to_vec: Vec<(String, String)> = v
            .to_vec()
            .into_iter()
            .map(|(k, val)| (kshow($xot, k), vshow($xot, &val)))
            .collect();
        let mut to_hashmap: Vec<(String, String)> = v
            .to_hashmap()
            .into_iter()
            .map(|(k, val)| (kshow($xot, k), vshow($xot, &val)))
            .collect();
        to_hashmap.sort();
        let mut per_key = vec![];
        for (name, id) in $pool.iter() {
            per_key.push((
                name.clone(),
                v.contains_key(*id),
                v.get(*id).map(|val| vshow($xot, val)),
                v.get_node(*id),
            ));
        }
        Obs {
            len: v.len(),
            is_empty: v.is_empty(),
            iter,
            keys,
            values,
            nodes,
            to_vec,
            to_hashmap,
            per_key,
        }
    }};
}

#[derive(Clone, Debug, PartialEq)]
struct Entry_ {
    key: String,
    val: String,
    node: Node,
}

fn expected(list: &[Entry_], pool: &[String]) -> Obs {
    let iter: Vec<(String, String)> = list.iter().map(|e| (e.key.clone(), e.val.clone())).collect();
    let mut hm = iter.clone();
    hm.sort();
    Obs {
        len: list.len(),
        is_empty: list.is_empty(),
        iter: iter.clone(),
        keys: list.iter().map(|e| e.key.clone()).collect(),
        values: list.iter().map(|e| e.val.clone()).collect(),
        nodes: list.iter().map(|e| e.node).collect(),
        to_vec: iter,
        to_hashmap: hm,
        per_key: pool
            .iter()
            .map(|k| {
                let f = list.iter().find(|e| e.key == *k);
                (k.clone(), f.is_some(), f.map(|e| e.val.clone()), f.map(|e| e.node))
            })
            .collect(),
    }
}

fn diff(what: &str, got: &Obs, want: &Obs) -> String {
    macro_rules! f {
        ($field:ident) => {
            if got.$field != want.$field {
                return format!("{}: {} = {:?}, reference map says {:?}", what, stringify!($field), got.$field, want.$field);
            }
        };
    }
    f!(len);
    f!(is_empty);
    f!(iter);
    f!(keys);
    f!(values);
    f!(nodes);
    f!(to_vec);
    f!(to_hashmap);
    f!(per_key);
    format!("{}: observation differs", what)
}

struct St {
    xot: Xot,
    els: [Node; 2],
    /// where serialisation starts for each element: E1 sits inside a wrapper that declares
    /// prefixes (an inherited binding must not stand in for an entry of E1's own map), E2 is a root
    tops: [Node; 2],
    attrs: [Vec<Entry_>; 2],
    nss: [Vec<Entry_>; 2],
    akeys: Vec<(String, NameId)>,
    nkeys: Vec<(String, PrefixId)>,
    free_attr: Vec<Node>,
    free_ns: Vec<Node>,
}

fn akshow(x: &Xot, k: NameId) -> String {
    qname_of(x, k).show()
}
fn avshow(_x: &Xot, v: &String) -> String {
    v.clone()
}
fn nkshow(x: &Xot, k: PrefixId) -> String {
    x.prefix_str(k).to_string()
}
fn nvshow(x: &Xot, v: &NamespaceId) -> String {
    x.namespace_str(*v).to_string()
}

impl St {
    fn check_all(&mut self) -> Result<(), String> {
        let apool: Vec<String> = self.akeys.iter().map(|k| k.0.clone()).collect();
        let npool: Vec<String> = self.nkeys.iter().map(|k| k.0.clone()).collect();
        for i in 0..2 {
            let e = self.els[i];
            let want_a = expected(&self.attrs[i], &apool);
            let want_n = expected(&self.nss[i], &npool);
            {
                let x = &self.xot;
                let ro: Obs = observe!(x.attributes(e), x, akshow, avshow, self.akeys);
                if ro != want_a {
                    return Err(diff(&format!("attributes(E{})", i + 1), &ro, &want_a));
                }
                let ro: Obs = observe!(x.namespaces(e), x, nkshow, nvshow, self.nkeys);
                if ro != want_n {
                    return Err(diff(&format!("namespaces(E{})", i + 1), &ro, &want_n));
                }
            }
            {
                // the mutable views duplicate the read API
                let mo: Obs = {
                    let akeys = self.akeys.clone();
                    let mut x2 = std::mem::take(&mut self.xot);
                    let r = (|| -> Result<Obs, String> {
                        let mv = x2.attributes_mut(e);
                        // name/value rendering needs &Xot, which the mutable view holds: collect raw first
                        let raw_iter: Vec<(NameId, String)> = bounded(mv.iter(), LIM, "iter")?.into_iter().map(|(k, v)| (k, v.clone())).collect();
                        let raw_keys: Vec<NameId> = bounded(mv.keys(), LIM, "keys")?;
                        let raw_values: Vec<String> = bounded(mv.values(), LIM, "values")?.into_iter().cloned().collect();
                        let nodes = bounded(mv.nodes(), LIM, "nodes")?;
                        let raw_vec = mv.to_vec();
                        let raw_hm: Vec<(NameId, String)> = mv.to_hashmap().into_iter().collect();
                        let len = mv.len();
                        let is_empty = mv.is_empty();
                        let mut pk = vec![];
                        for (name, id) in akeys.iter() {
                            pk.push((name.clone(), mv.contains_key(*id), mv.get(*id).cloned(), mv.get_node(*id)));
                        }
                        drop(mv);
                        let x = &x2;
                        let mut hm: Vec<(String, String)> = raw_hm.into_iter().map(|(k, v)| (akshow(x, k), v)).collect();
                        hm.sort();
                        Ok(Obs {
                            len,
                            is_empty,
                            iter: raw_iter.into_iter().map(|(k, v)| (akshow(x, k), v)).collect(),
                            keys: raw_keys.into_iter().map(|k| akshow(x, k)).collect(),
                            values: raw_values,
                            nodes,
                            to_vec: raw_vec.into_iter().map(|(k, v)| (akshow(x, k), v)).collect(),
                            to_hashmap: hm,
                            per_key: pk,
                        })
                    })();
                    self.xot = x2;
                    r?
                };
                if mo != want_a {
                    return Err(diff(&format!("attributes_mut(E{})", i + 1), &mo, &want_a));
                }
                let mo: Obs = {
                    let nkeys = self.nkeys.clone();
                    let mut x2 = std::mem::take(&mut self.xot);
                    let r = (|| -> Result<Obs, String> {
                        let mv = x2.namespaces_mut(e);
                        let raw_iter: Vec<(PrefixId, NamespaceId)> = bounded(mv.iter(), LIM, "iter")?.into_iter().map(|(k, v)| (k, *v)).collect();
                        let raw_keys: Vec<PrefixId> = bounded(mv.keys(), LIM, "keys")?;
                        let raw_values: Vec<NamespaceId> = bounded(mv.values(), LIM, "values")?.into_iter().copied().collect();
                        let nodes = bounded(mv.nodes(), LIM, "nodes")?;
                        let raw_vec = mv.to_vec();
                        let raw_hm: Vec<(PrefixId, NamespaceId)> = mv.to_hashmap().into_iter().collect();
                        let len = mv.len();
                        let is_empty = mv.is_empty();
                        let mut pk0 = vec![];
                        for (name, id) in nkeys.iter() {
                            pk0.push((name.clone(), mv.contains_key(*id), mv.get(*id).copied(), mv.get_node(*id)));
                        }
                        drop(mv);
                        let x = &x2;
                        let mut hm: Vec<(String, String)> = raw_hm.into_iter().map(|(k, v)| (nkshow(x, k), nvshow(x, &v))).collect();
                        hm.sort();
                        Ok(Obs {
                            len,
                            is_empty,
                            iter: raw_iter.into_iter().map(|(k, v)| (nkshow(x, k), nvshow(x, &v))).collect(),
                            keys: raw_keys.into_iter().map(|k| nkshow(x, k)).collect(),
                            values: raw_values.into_iter().map(|v| nvshow(x, &v)).collect(),
                            nodes,
                            to_vec: raw_vec.into_iter().map(|(k, v)| (nkshow(x, k), nvshow(x, &v))).collect(),
                            to_hashmap: hm,
                            per_key: pk0.into_iter().map(|(n, c, g, gn)| (n, c, g.map(|v| nvshow(x, &v)), gn)).collect(),
                        })
                    })();
                    self.xot = x2;
                    r?
                };
                if mo != want_n {
                    return Err(diff(&format!("namespaces_mut(E{})", i + 1), &mo, &want_n));
                }
            }
            // the accessor twins on Xot
            for (name, id) in self.akeys.iter() {
                let want = self.attrs[i].iter().find(|en| en.key == *name).map(|en| en.val.clone());
                if self.xot.get_attribute(e, *id).map(|s| s.to_string()) != want {
                    return Err(format!("get_attribute(E{}, {}) disagrees with the reference map", i + 1, name));
                }
            }
            for (name, id) in self.nkeys.iter() {
                let want = self.nss[i].iter().find(|en| en.key == *name).map(|en| en.val.clone());
                if self.xot.get_namespace(e, *id).map(|u| self.xot.namespace_str(u).to_string()) != want {
                    return Err(format!("get_namespace(E{}, {:?}) disagrees with the reference map", i + 1, name));
                }
            }
            // serialisation order: output events and the start tag as written
            let x = &self.xot;
            let top = self.tops[i];
            let outs = bounded(x.outputs(top), 4 * LIM, "outputs")?;
            let mut ev_ns = vec![];
            let mut ev_at = vec![];
            let mut seen_attr = false;
            for (n, o) in &outs {
                if *n != e {
                    continue;
                }
                match o {
                    Output::Prefix(p, u) => {
                        if seen_attr {
                            return Err("outputs(): a Prefix event after an Attribute event".into());
                        }
                        if x.namespace_str(*u) == XML_NS && !self.nss[i].iter().any(|en| en.key == "xml") {
                            continue; // the always-in-scope xml binding emitted for a top node
                        }
                        ev_ns.push((nkshow(x, *p), nvshow(x, u)));
                    }
                    Output::Attribute(k, v) => {
                        seen_attr = true;
                        ev_at.push((akshow(x, *k), v.to_string()));
                    }
                    _ => {}
                }
            }
            if ev_ns != want_n.iter {
                return Err(format!("outputs(E{}): Prefix events {:?}, reference order {:?}", i + 1, ev_ns, want_n.iter));
            }
            if ev_at != want_a.iter {
                return Err(format!("outputs(E{}): Attribute events {:?}, reference order {:?}", i + 1, ev_at, want_a.iter));
            }
            match guarded(|| x.to_string(top)) {
                Ok(Ok(s)) => {
                    let toks = xmltok::tokenize(&s).map_err(|m| format!("cannot tokenize {:?}: {}", s, m))?;
                    // the start tag of E: the first one when E is the top, else the second
                    let nth = if top == e { 0 } else { 1 };
                    if let Some(Tok::Start { attrs, .. }) = toks.iter().filter(|t| matches!(t, Tok::Start { .. })).nth(nth) {
                        let mut want: Vec<String> = vec![];
                        for en in &self.nss[i] {
                            if en.key == "xml" {
                                continue; // the xml binding is never written
                            }
                            want.push(if en.key.is_empty() { "xmlns".to_string() } else { format!("xmlns:{}", en.key) });
                        }
                        for en in &self.attrs[i] {
                            let q = self.akeys.iter().find(|k| k.0 == en.key).map(|k| qname_of(x, k.1)).unwrap();
                            want.push(if q.ns == XML_NS { format!("xml:{}", q.local) } else { q.local.clone() });
                        }
                        let got: Vec<String> = attrs.iter().map(|a| a.0.clone()).collect();
                        if got != want {
                            return Err(format!("start tag of E{} lists {:?}, reference order is {:?} (text {:?})", i + 1, got, want, s));
                        }
                    } else {
                        return Err(format!("serialisation of E{} does not start with a start tag: {:?}", i + 1, s));
                    }
                }
                Ok(Err(_)) => {}
                Err(p) => return Err(format!("to_string(E{}) panicked: {}", i + 1, p)),
            }
        }
        Ok(())
    }
}

impl Property for C11 {
    fn id(&self) -> &'static str {
        "C11"
    }
    fn rule(&self) -> &'static str {
        "case = two elements starting with 0-5 namespace and attribute nodes + a history (<= 60 steps, keys from a pool of 4) of map-style updates (insert, remove, get_mut, entry().or_insert/or_insert_with/or_default/and_modify/key, occupied get/get_mut/insert/remove/into_mut, vacant insert, clear, set_*/remove_* wrappers) and node-style updates (new_*_node + append_*_node / any_append / append_namespace, detach/remove of such nodes, moving a node from the other element or appending an attached node to its own element again, through append_*_node and any_append); the first element is empty, the second has a text and an element child. After every step len/is_empty/contains_key/get/get_node/iter/keys/values/nodes/to_vec/to_hashmap of the read-only AND the mutable view are compared with a reference ordered map (incl. node handles and return values), and outputs() events plus the independently tokenized start tag must list declarations then attributes in reference order. Non-trivial = history with an update in place, a removal from the middle and a node-style step. Distinct by hash of the step list."
    }
    fn plans(&self, tier: Tier) -> Vec<Plan> {
        let small = Plan {
            name: "small",
            kind: PlanKind::Enumerate { limit: 600_000 },
            knobs: Knobs { max_ops: 1, small: true, ..Default::default() },
        };
        let small2 = Plan {
            name: "small2",
            kind: PlanKind::Enumerate { limit: 6_000_000 },
            knobs: Knobs { max_ops: 2, small: true, ..Default::default() },
        };
        match tier {
            Tier::Quick => vec![
                Plan {
                    name: "hist",
                    kind: PlanKind::Random { cases: 100_000, max_len: 400 },
                    knobs: Knobs { max_ops: 60, ..Default::default() },
                },
                small,
                Plan {
                    name: "hist-xml-keys",
                    kind: PlanKind::Random { cases: 60_000, max_len: 400 },
                    knobs: Knobs { max_ops: 60, variant: 1, ..Default::default() },
                },
            ],
            Tier::Thorough => vec![
                Plan {
                    name: "hist",
                    kind: PlanKind::Random { cases: 1_000_000, max_len: 500 },
                    knobs: Knobs { max_ops: 80, ..Default::default() },
                },
                small,
                small2,
                Plan {
                    name: "hist-xml-keys",
                    kind: PlanKind::Random { cases: 600_000, max_len: 500 },
                    knobs: Knobs { max_ops: 80, variant: 1, ..Default::default() },
                },
            ],
        }
    }

    fn check(&self, src: &mut Src, ctx: &mut Ctx) -> Verdict {
        let small = ctx.knobs.small;
        let mut xot = Xot::new();
        // plan hist-xml-keys: the keys of the xml namespace and prefix are keys like any other — xml:id and
        // xml:lang among the attribute keys (with values that have leading, trailing and doubled spaces:
        // the maps store what they are given), an explicit xmlns:xml declaration among the prefixes
        let xml_keys = ctx.knobs.variant == 1;
        let an: Vec<QName> = if small {
            vec![QName::new("", "a"), QName::new("", "b")]
        } else if xml_keys {
            vec![QName::new("", "a"), QName::new(XML_NS, "id"), QName::new(XML_NS, "space"), QName::new(XML_NS, "lang")]
        } else {
            vec![QName::new("", "a"), QName::new("", "b"), QName::new("", "c"), QName::new(XML_NS, "lang")]
        };
        let akeys: Vec<(String, NameId)> = an.iter().map(|q| (q.show(), name_id(&mut xot, q))).collect();
        let np: Vec<&str> = if small {
            vec!["", "p"]
        } else if xml_keys {
            vec!["", "p", "q", "xml"]
        } else {
            vec!["", "p", "q", "r"]
        };
        let nkeys: Vec<(String, PrefixId)> = np.iter().map(|p| (p.to_string(), xot.add_prefix(p))).collect();
        let uris = ["urn:a", "urn:b"];
        let vals = if small {
            vec!["x", "y"]
        } else if xml_keys {
            vec![" v", "w ", "a  b", "preserve"]
        } else {
            vec!["", "v", "w", "a b"]
        };
        let ename = xot.add_name("e");
        let e1 = xot.new_element(ename);
        let e2 = xot.new_element(ename);
        // E1 stays empty, E2 has content: the insertion points of the two maps differ between an
        // empty element and one with ordinary children
        let _ = xot.append_text(e2, "t");
        let _ = xot.append_element(e2, ename);
        // E1 lives inside a wrapper that binds p and q (to the two namespaces the pool uses)
        let wname = xot.add_name("w");
        let w = xot.new_element(wname);
        {
            let (pp, pq) = (xot.add_prefix("p"), xot.add_prefix("q"));
            let (ua, ub) = (xot.add_namespace("urn:a"), xot.add_namespace("urn:b"));
            xot.namespaces_mut(w).insert(pp, ua);
            xot.namespaces_mut(w).insert(pq, ub);
        }
        let _ = xot.append(w, e1);
        let mut st = St {
            xot,
            els: [e1, e2],
            tops: [w, e2],
            attrs: [vec![], vec![]],
            nss: [vec![], vec![]],
            akeys,
            nkeys,
            free_attr: vec![],
            free_ns: vec![],
        };
        let mut log: Vec<String> = vec![];
        // start content
        for i in 0..2 {
            let na = if small { src.choice(2) } else { src.choice(4) };
            for _ in 0..na {
                let k = src.choice(st.akeys.len());
                let v = vals[src.choice(vals.len())].to_string();
                let (ks, kid) = st.akeys[k].clone();
                if st.attrs[i].iter().any(|e| e.key == ks) {
                    continue;
                }
                st.xot.attributes_mut(st.els[i]).insert(kid, v.clone());
                let node = st.xot.attributes(st.els[i]).get_node(kid).unwrap();
                st.attrs[i].push(Entry_ { key: ks.clone(), val: v.clone(), node });
                log.push(format!("E{} starts with @{}={:?}", i + 1, ks, v));
            }
            let nn = if small { src.choice(2) } else { src.choice(3) };
            for _ in 0..nn {
                let k = src.choice(st.nkeys.len());
                let u = uris[src.choice(2)].to_string();
                let (ks, kid) = st.nkeys[k].clone();
                // the xml prefix is only ever declared as what it is
                let u = if ks == "xml" { XML_NS.to_string() } else { u };
                if st.nss[i].iter().any(|e| e.key == ks) {
                    continue;
                }
                let uid = st.xot.add_namespace(&u);
                st.xot.namespaces_mut(st.els[i]).insert(kid, uid);
                let node = st.xot.namespaces(st.els[i]).get_node(kid).unwrap();
                st.nss[i].push(Entry_ { key: ks.clone(), val: u.clone(), node });
                log.push(format!("E{} starts with xmlns:{}={:?}", i + 1, ks, u));
            }
        }
        if let Err(e) = st.check_all() {
            ctx.rendering(|| log.join("; "));
            return Verdict::Fail(format!("start state: {}", e));
        }
        let nops = if small { ctx.knobs.max_ops } else { 1 + src.choice(ctx.knobs.max_ops.max(1)) };
        let mut upd_in_place = false;
        let mut removed_middle = false;
        let mut node_style = false;
        for step in 0..nops {
            if step > 0 && src.exhausted() {
                break;
            }
            let i = src.choice(2);
            let e = st.els[i];
            let on_attr = src.bool();
            let r: Result<(), String> = (|| {
                if on_attr {
                    let k = src.choice(st.akeys.len());
                    let (ks, kid) = st.akeys[k].clone();
                    let v = vals[src.choice(vals.len())].to_string();
                    let pos = st.attrs[i].iter().position(|en| en.key == ks);
                    let opc = src.choice(19);
                    if opc == 0 && src.ratio(1, 5) {
                        // several updates through ONE mutable view: insert, remove the same key, insert another
                        let k2 = src.choice(st.akeys.len());
                        let (ks2, kid2) = st.akeys[k2].clone();
                        let v2 = vals[src.choice(vals.len())].to_string();
                        log.push(format!("one view of E{}.attr: insert({},{:?}); remove({}); insert({},{:?})", i + 1, ks, v, ks, ks2, v2));
                        {
                            let mut m = st.xot.attributes_mut(e);
                            m.insert(kid, v.clone());
                            let r = m.remove(kid);
                            if r != Some(v.clone()) {
                                return Err(format!("remove right after insert through the same view returned {:?}", r));
                            }
                            m.insert(kid2, v2.clone());
                        }
                        if let Some(p) = pos {
                            if p + 1 < st.attrs[i].len() {
                                removed_middle = true;
                            }
                            st.attrs[i].remove(p);
                        }
                        match st.attrs[i].iter().position(|en| en.key == ks2) {
                            Some(p2) => {
                                st.attrs[i][p2].val = v2;
                                upd_in_place = true;
                            }
                            None => {
                                let node = st.xot.attributes(e).get_node(kid2).ok_or("batched insert left no node")?;
                                st.attrs[i].push(Entry_ { key: ks2, val: v2, node });
                            }
                        }
                        return Ok(());
                    }
                    match opc {
                        0 | 1 => {
                            // insert / set_attribute
                            log.push(format!("E{}.attr.insert({},{:?}) [{}]", i + 1, ks, v, if opc == 0 { "map" } else { "set_attribute" }));
                            let old = if opc == 0 {
                                Some(st.xot.attributes_mut(e).insert(kid, v.clone()))
                            } else {
                                st.xot.set_attribute(e, kid, v.clone());
                                None
                            };
                            match pos {
                                Some(p) => {
                                    if let Some(o) = old {
                                        if o != Some(st.attrs[i][p].val.clone()) {
                                            return Err(format!("insert on an existing key returned {:?}, old value was {:?}", o, st.attrs[i][p].val));
                                        }
                                    }
                                    st.attrs[i][p].val = v;
                                    upd_in_place = true;
                                }
                                None => {
                                    if let Some(o) = old {
                                        if o.is_some() {
                                            return Err(format!("insert of a new key returned {:?}", o));
                                        }
                                    }
                                    let node = st.xot.attributes(e).get_node(kid).ok_or("inserted attribute has no node")?;
                                    st.attrs[i].push(Entry_ { key: ks, val: v, node });
                                }
                            }
                        }
                        2 | 3 => {
                            log.push(format!("E{}.attr.remove({}) [{}]", i + 1, ks, if opc == 2 { "map" } else { "remove_attribute" }));
                            let old = if opc == 2 {
                                Some(st.xot.attributes_mut(e).remove(kid))
                            } else {
                                st.xot.remove_attribute(e, kid);
                                None
                            };
                            let want = pos.map(|p| st.attrs[i][p].val.clone());
                            if let Some(o) = old {
                                if o != want {
                                    return Err(format!("remove returned {:?}, reference says {:?}", o, want));
                                }
                            }
                            if let Some(p) = pos {
                                if p + 1 < st.attrs[i].len() {
                                    removed_middle = true;
                                }
                                let en = st.attrs[i].remove(p);
                                if !st.xot.is_removed(en.node) {
                                    return Err("attribute node still live after map remove".into());
                                }
                            }
                        }
                        4 => {
                            log.push(format!("*E{}.attr.get_mut({})={:?}", i + 1, ks, v));
                            let mut m = st.xot.attributes_mut(e);
                            match (m.get_mut(kid), pos) {
                                (Some(slot), Some(p)) => {
                                    if *slot != st.attrs[i][p].val {
                                        return Err("get_mut shows a stale value".into());
                                    }
                                    *slot = v.clone();
                                    st.attrs[i][p].val = v;
                                    upd_in_place = true;
                                }
                                (None, None) => {}
                                (g, _) => return Err(format!("get_mut returned {:?}, reference has key: {}", g.map(|s| s.clone()), pos.is_some())),
                            }
                        }
                        5 | 6 | 7 | 8 => {
                            // entry().or_insert / or_insert_with / or_default / and_modify().or_insert
                            let name = ["or_insert", "or_insert_with", "or_default", "and_modify.or_insert"][opc - 5];
                            log.push(format!("E{}.attr.entry({}).{}({:?})", i + 1, ks, name, v));
                            let got: String = {
                                let mut m = st.xot.attributes_mut(e);
                                let en = m.entry(kid);
                                if *en.key() != kid {
                                    return Err("Entry::key() differs from the key asked for".into());
                                }
                                match opc {
                                    5 => en.or_insert(v.clone()).clone(),
                                    6 => en.or_insert_with(|| v.clone()).clone(),
                                    7 => en.or_default().clone(),
                                    _ => en.and_modify(|x| x.push('!')).or_insert(v.clone()).clone(),
                                }
                            };
                            match pos {
                                Some(p) => {
                                    if opc == 8 {
                                        st.attrs[i][p].val.push('!');
                                        upd_in_place = true;
                                    }
                                    if got != st.attrs[i][p].val {
                                        return Err(format!("entry().{} on an occupied key gave {:?}, reference {:?}", name, got, st.attrs[i][p].val));
                                    }
                                }
                                None => {
                                    let want = if opc == 7 { String::new() } else { v.clone() };
                                    if got != want {
                                        return Err(format!("entry().{} on a vacant key gave {:?}, expected {:?}", name, got, want));
                                    }
                                    let node = st.xot.attributes(e).get_node(kid).ok_or("entry insert left no node")?;
                                    st.attrs[i].push(Entry_ { key: ks, val: want, node });
                                }
                            }
                        }
                        9 | 10 | 11 | 12 | 13 => {
                            let name = ["get", "get_mut", "insert", "remove", "into_mut"][opc - 9];
                            log.push(format!("E{}.attr.entry({}) match {{Occupied.{} | Vacant.insert}} {:?}", i + 1, ks, name, v));
                            let mut vacant_inserted = false;
                            {
                            let mut m = st.xot.attributes_mut(e);
                            match m.entry(kid) {
                                Entry::Occupied(mut o) => {
                                    let p = pos.ok_or("entry() is Occupied for a key the reference does not have")?;
                                    if *o.key() != kid {
                                        return Err("OccupiedEntry::key() wrong".into());
                                    }
                                    match opc {
                                        9 => {
                                            if *o.get() != st.attrs[i][p].val {
                                                return Err("OccupiedEntry::get shows a wrong value".into());
                                            }
                                        }
                                        10 => {
                                            *o.get_mut() = v.clone();
                                            st.attrs[i][p].val = v.clone();
                                            upd_in_place = true;
                                        }
                                        11 => {
                                            let old = o.insert(v.clone());
                                            if old != st.attrs[i][p].val {
                                                return Err(format!("OccupiedEntry::insert returned {:?}, old value {:?}", old, st.attrs[i][p].val));
                                            }
                                            st.attrs[i][p].val = v.clone();
                                            upd_in_place = true;
                                        }
                                        12 => {
                                            let old = o.remove();
                                            if old != st.attrs[i][p].val {
                                                return Err("OccupiedEntry::remove returned a wrong value".into());
                                            }
                                            if p + 1 < st.attrs[i].len() {
                                                removed_middle = true;
                                            }
                                            st.attrs[i].remove(p);
                                        }
                                        _ => {
                                            *o.into_mut() = v.clone();
                                            st.attrs[i][p].val = v.clone();
                                            upd_in_place = true;
                                        }
                                    }
                                }
                                Entry::Vacant(vac) => {
                                    if pos.is_some() {
                                        return Err("entry() is Vacant for a key the reference has".into());
                                    }
                                    if *vac.key() != kid {
                                        return Err("VacantEntry::key() wrong".into());
                                    }
                                    let got = vac.insert(v.clone()).clone();
                                    if got != v {
                                        return Err("VacantEntry::insert returns a wrong value".into());
                                    }
                                    vacant_inserted = true;
                                }
                            }
                            }
                            if vacant_inserted {
                                let node = st.xot.attributes(e).get_node(kid).ok_or("vacant insert left no node")?;
                                st.attrs[i].push(Entry_ { key: ks, val: v, node });
                            }
                        }
                        14 => {
                            log.push(format!("E{}.attr.clear()", i + 1));
                            st.xot.attributes_mut(e).clear();
                            for en in st.attrs[i].drain(..) {
                                if !st.xot.is_removed(en.node) {
                                    return Err("clear() left an attribute node live".into());
                                }
                            }
                        }
                        15 | 16 => {
                            // node style: fresh node appended
                            node_style = true;
                            let n = st.xot.new_attribute_node(kid, v.clone());
                            log.push(format!("{}(E{}, new @{}={:?})", if opc == 15 { "append_attribute_node" } else { "any_append" }, i + 1, ks, v));
                            let ret = if opc == 15 { st.xot.append_attribute_node(e, n) } else { st.xot.any_append(e, n) }
                                .map_err(|er| format!("append of an attribute node refused: {}", er))?;
                            match pos {
                                Some(p) => {
                                    if ret != st.attrs[i][p].node {
                                        return Err("append_attribute_node on an existing key did not return the existing node".into());
                                    }
                                    st.attrs[i][p].val = v;
                                    upd_in_place = true;
                                    st.free_attr.push(n);
                                    if st.xot.is_removed(n) || st.xot.parent(n).is_some() {
                                        return Err("the passed attribute node was consumed although the key existed".into());
                                    }
                                }
                                None => {
                                    if ret != n {
                                        return Err("append_attribute_node of a new key did not return the passed node".into());
                                    }
                                    st.attrs[i].push(Entry_ { key: ks, val: v, node: n });
                                }
                            }
                        }
                        17 => {
                            // detach or remove the node of an existing entry
                            if let Some(p) = pos {
                                node_style = true;
                                let en = st.attrs[i][p].clone();
                                if p + 1 < st.attrs[i].len() {
                                    removed_middle = true;
                                }
                                match src.choice(3) {
                                    0 => {
                                        log.push(format!("detach(node of E{}@{})", i + 1, ks));
                                        st.xot.detach(en.node).map_err(|er| er.to_string())?;
                                        st.free_attr.push(en.node);
                                        st.attrs[i].remove(p);
                                    }
                                    1 => {
                                        log.push(format!("remove(node of E{}@{})", i + 1, ks));
                                        st.xot.remove(en.node).map_err(|er| er.to_string())?;
                                        st.attrs[i].remove(p);
                                    }
                                    _ => {
                                        // the attached node appended to its own element again: the key exists,
                                        // so position and node stay as they are
                                        removed_middle = false || removed_middle;
                                        let use_any = src.bool();
                                        log.push(format!("{}(E{}, its own attached node @{})", if use_any { "any_append" } else { "append_attribute_node" }, i + 1, ks));
                                        let ret = if use_any { st.xot.any_append(e, en.node) } else { st.xot.append_attribute_node(e, en.node) }.map_err(|er| er.to_string())?;
                                        if ret != en.node {
                                            return Err("re-appending an attached attribute node to its own element did not return that node".into());
                                        }
                                    }
                                }
                            }
                        }
                        _ => {
                            // move a node from the other element (or a free one)
                            let j = 1 - i;
                            let donor: Option<(Node, String, String, bool)> = if !st.attrs[j].is_empty() && src.bool() {
                                let q = src.choice(st.attrs[j].len());
                                let en = st.attrs[j][q].clone();
                                Some((en.node, en.key, en.val, true))
                            } else if !st.free_attr.is_empty() {
                                let q = src.choice(st.free_attr.len());
                                let n = st.free_attr[q];
                                let a = st.xot.attribute_node(n).ok_or("free attribute node lost its value")?;
                                let k = akshow(&st.xot, a.name());
                                let val = a.value().to_string();
                                Some((n, k, val, false))
                            } else {
                                None
                            };
                            if let Some((n, dk, dv, from_other)) = donor {
                                node_style = true;
                                let use_any = src.bool();
                                log.push(format!("{}(E{}, existing node @{}={:?} from {})", if use_any { "any_append" } else { "append_attribute_node" }, i + 1, dk, dv, if from_other { "the other element" } else { "nowhere" }));
                                let ret = if use_any { st.xot.any_append(e, n) } else { st.xot.append_attribute_node(e, n) }.map_err(|er| er.to_string())?;
                                if from_other && st.attrs[i].iter().any(|en| en.key == dk) {
                                    // the key exists on the target: the donor keeps its own entry
                                    if st.xot.parent(n) != Some(st.els[j]) {
                                        return Err("appending a node whose key the target already has took it away from the element it was on".into());
                                    }
                                }
                                let pos = st.attrs[i].iter().position(|en| en.key == dk);
                                match pos {
                                    Some(p) => {
                                        if ret != st.attrs[i][p].node {
                                            return Err("append of an existing key must return the existing node".into());
                                        }
                                        st.attrs[i][p].val = dv;
                                        upd_in_place = true;
                                    }
                                    None => {
                                        if ret != n {
                                            return Err("append of a new key must return the passed node".into());
                                        }
                                        if from_other {
                                            st.attrs[j].retain(|en| en.node != n);
                                        } else {
                                            st.free_attr.retain(|x| *x != n);
                                        }
                                        st.attrs[i].push(Entry_ { key: dk, val: dv, node: n });
                                    }
                                }
                            }
                        }
                    }
                } else {
                    let k = src.choice(st.nkeys.len());
                    let (ks, kid) = st.nkeys[k].clone();
                    let u = uris[src.choice(2)].to_string();
                    let u = if ks == "xml" { XML_NS.to_string() } else { u };
                    let uid = st.xot.add_namespace(&u);
                    let pos = st.nss[i].iter().position(|en| en.key == ks);
                    let opc = src.choice(13);
                    // (late draw) the default prefix may also be bound to "no namespace": xmlns=""
                    let (u, uid) = if ks.is_empty() && src.ratio(1, 4) { (String::new(), st.xot.no_namespace()) } else { (u, uid) };
                    match opc {
                        0 | 1 => {
                            let via_create = opc == 1 && src.ratio(1, 3);
                            log.push(format!("E{}.ns.insert({:?},{:?}) [{}]", i + 1, ks, u, if opc == 0 { "map" } else if via_create { "append_namespace" } else { "set_namespace" }));
                            let old = if opc == 0 {
                                Some(st.xot.namespaces_mut(e).insert(kid, uid))
                            } else if via_create {
                                let cn = xot::xmlname::CreateNamespace::new(&mut st.xot, &ks, &u);
                                let ret = st.xot.append_namespace(e, &cn).map_err(|er| format!("append_namespace refused: {}", er))?;
                                if let Some(p) = pos {
                                    if ret != st.nss[i][p].node {
                                        return Err("append_namespace on an existing prefix did not return the existing node".into());
                                    }
                                }
                                None
                            } else {
                                st.xot.set_namespace(e, kid, uid);
                                None
                            };
                            match pos {
                                Some(p) => {
                                    if let Some(o) = old {
                                        let o = o.map(|x| st.xot.namespace_str(x).to_string());
                                        if o != Some(st.nss[i][p].val.clone()) {
                                            return Err(format!("namespace insert on an existing prefix returned {:?}", o));
                                        }
                                    }
                                    st.nss[i][p].val = u;
                                    upd_in_place = true;
                                }
                                None => {
                                    if let Some(Some(_)) = old {
                                        return Err("namespace insert of a new prefix returned Some".into());
                                    }
                                    let node = st.xot.namespaces(e).get_node(kid).ok_or("inserted declaration has no node")?;
                                    st.nss[i].push(Entry_ { key: ks, val: u, node });
                                }
                            }
                        }
                        2 | 3 => {
                            log.push(format!("E{}.ns.remove({:?}) [{}]", i + 1, ks, if opc == 2 { "map" } else { "remove_namespace" }));
                            let old = if opc == 2 {
                                Some(st.xot.namespaces_mut(e).remove(kid))
                            } else {
                                st.xot.remove_namespace(e, kid);
                                None
                            };
                            let want = pos.map(|p| st.nss[i][p].val.clone());
                            if let Some(o) = old {
                                let o = o.map(|x| st.xot.namespace_str(x).to_string());
                                if o != want {
                                    return Err(format!("namespace remove returned {:?}, reference {:?}", o, want));
                                }
                            }
                            if let Some(p) = pos {
                                if p + 1 < st.nss[i].len() {
                                    removed_middle = true;
                                }
                                st.nss[i].remove(p);
                            }
                        }
                        4 => {
                            log.push(format!("*E{}.ns.get_mut({:?})={:?}", i + 1, ks, u));
                            let mut m = st.xot.namespaces_mut(e);
                            match (m.get_mut(kid), pos) {
                                (Some(slot), Some(p)) => {
                                    *slot = uid;
                                    st.nss[i][p].val = u;
                                    upd_in_place = true;
                                }
                                (None, None) => {}
                                _ => return Err("namespaces get_mut disagrees with the reference about presence".into()),
                            }
                        }
                        5 | 6 | 7 => {
                            let name = ["or_insert", "or_insert_with", "and_modify.or_insert"][opc - 5];
                            log.push(format!("E{}.ns.entry({:?}).{}({:?})", i + 1, ks, name, u));
                            let other = st.xot.add_namespace("urn:modified");
                            let got: NamespaceId = {
                                let mut m = st.xot.namespaces_mut(e);
                                let en = m.entry(kid);
                                match opc {
                                    5 => *en.or_insert(uid),
                                    6 => *en.or_insert_with(|| uid),
                                    _ => *en.and_modify(|x| *x = other).or_insert(uid),
                                }
                            };
                            let got = st.xot.namespace_str(got).to_string();
                            match pos {
                                Some(p) => {
                                    if opc == 7 {
                                        st.nss[i][p].val = "urn:modified".into();
                                        upd_in_place = true;
                                    }
                                    if got != st.nss[i][p].val {
                                        return Err(format!("ns entry().{} on an occupied prefix gave {:?}, reference {:?}", name, got, st.nss[i][p].val));
                                    }
                                }
                                None => {
                                    if got != u {
                                        return Err(format!("ns entry().{} on a vacant prefix gave {:?}", name, got));
                                    }
                                    let node = st.xot.namespaces(e).get_node(kid).ok_or("ns entry insert left no node")?;
                                    st.nss[i].push(Entry_ { key: ks, val: u, node });
                                }
                            }
                        }
                        8 => {
                            log.push(format!("E{}.ns.clear()", i + 1));
                            st.xot.namespaces_mut(e).clear();
                            st.nss[i].clear();
                        }
                        9 | 10 => {
                            node_style = true;
                            let n = st.xot.new_namespace_node(kid, uid);
                            log.push(format!("{}(E{}, new xmlns:{}={:?})", if opc == 9 { "append_namespace_node" } else { "any_append" }, i + 1, ks, u));
                            let ret = if opc == 9 { st.xot.append_namespace_node(e, n) } else { st.xot.any_append(e, n) }
                                .map_err(|er| format!("append of a namespace node refused: {}", er))?;
                            match pos {
                                Some(p) => {
                                    if ret != st.nss[i][p].node {
                                        return Err("append_namespace_node on an existing prefix did not return the existing node".into());
                                    }
                                    st.nss[i][p].val = u;
                                    upd_in_place = true;
                                    st.free_ns.push(n);
                                }
                                None => {
                                    if ret != n {
                                        return Err("append_namespace_node of a new prefix did not return the passed node".into());
                                    }
                                    st.nss[i].push(Entry_ { key: ks, val: u, node: n });
                                }
                            }
                        }
                        11 => {
                            if let Some(p) = pos {
                                node_style = true;
                                let en = st.nss[i][p].clone();
                                if p + 1 < st.nss[i].len() {
                                    removed_middle = true;
                                }
                                if src.bool() {
                                    log.push(format!("detach(node of E{} xmlns:{})", i + 1, ks));
                                    st.xot.detach(en.node).map_err(|er| er.to_string())?;
                                    st.free_ns.push(en.node);
                                } else {
                                    log.push(format!("remove(node of E{} xmlns:{})", i + 1, ks));
                                    st.xot.remove(en.node).map_err(|er| er.to_string())?;
                                }
                                st.nss[i].remove(p);
                            }
                        }
                        _ => {
                            let j = 1 - i;
                            if !st.nss[j].is_empty() {
                                node_style = true;
                                let q = src.choice(st.nss[j].len());
                                let en = st.nss[j][q].clone();
                                log.push(format!("append_namespace_node(E{}, node xmlns:{}={:?} of the other element)", i + 1, en.key, en.val));
                                let ret = st.xot.append_namespace_node(e, en.node).map_err(|er| er.to_string())?;
                                match st.nss[i].iter().position(|x| x.key == en.key) {
                                    Some(p) => {
                                        if ret != st.nss[i][p].node {
                                            return Err("append of an existing prefix must return the existing node".into());
                                        }
                                        st.nss[i][p].val = en.val;
                                        upd_in_place = true;
                                    }
                                    None => {
                                        if ret != en.node {
                                            return Err("append of a new prefix must return the passed node".into());
                                        }
                                        st.nss[j].remove(q);
                                        st.nss[i].push(en);
                                    }
                                }
                            }
                        }
                    }
                }
                Ok(())
            })();
            if let Err(m) = r {
                ctx.rendering(|| log.join("; "));
                return Verdict::Fail(format!("step {} ({}): {}", step, log.last().cloned().unwrap_or_default(), m));
            }
            if let Err(m) = st.check_all() {
                ctx.rendering(|| log.join("; "));
                return Verdict::Fail(format!("after step {} ({}): {}", step, log.last().cloned().unwrap_or_default(), m));
            }
        }
        ctx.fingerprint(&log);
        ctx.nontrivial = if small { upd_in_place || removed_middle || node_style } else { upd_in_place && removed_middle && node_style };
        if upd_in_place {
            ctx.label("update_in_place");
        }
        if removed_middle {
            ctx.label("removed_from_middle");
        }
        if node_style {
            ctx.label("node_style");
        }
        ctx.rendering(|| log.join("; "));
        Verdict::Pass
    }
}
