//! C20 — the same document built three ways is the same tree.

use xot::{fixed, Node, Xot};

use crate::bridge;
use crate::engine::runner::guarded;
use crate::engine::{Ctx, Knobs, Plan, PlanKind, Property, Src, Tier, Verdict};
use crate::gen::render;
use crate::gen::{self, TreeOpts};
use crate::model::{AElem, ANode};
use crate::props::common::{same_tree, Cmp};

pub struct C20;

fn fixed_element(e: &AElem) -> fixed::Element {
    fixed::Element {
        name: fixed::Name { namespace: e.name.ns.clone(), localname: e.name.local.clone() },
        prefixes: e.decls.iter().map(|(p, u)| fixed::Prefix { name: p.clone(), namespace: u.clone() }).collect(),
        attributes: e
            .attrs
            .iter()
            .map(|(q, v)| (fixed::Name { namespace: q.ns.clone(), localname: q.local.clone() }, v.clone()))
            .collect(),
        children: e
            .children
            .iter()
            .map(|c| match c {
                ANode::Element(e) => fixed::Content::Element(fixed_element(e)),
                ANode::Text(t) => fixed::Content::Text(t.clone()),
                ANode::Comment(t) => fixed::Content::Comment(t.clone()),
                ANode::PI(t, d) => fixed::Content::ProcessingInstruction(fixed::ProcessingInstruction { target: t.clone(), content: d.clone() }),
                _ => unreachable!(),
            })
            .collect(),
    }
}

/// like `fixed_element`, but a text may be given as two adjacent `Content::Text` entries
/// (xotify creates with consolidation on: they are one text node in the tree)
fn fixed_element_split(e: &AElem, src: &mut Src, splits: &mut usize) -> fixed::Element {
    let mut children = vec![];
    for c in &e.children {
        match c {
            ANode::Element(e) => children.push(fixed::Content::Element(fixed_element_split(e, src, splits))),
            ANode::Text(t) => {
                let chars: Vec<char> = t.chars().collect();
                if chars.len() >= 2 && src.bool() {
                    let at = 1 + src.choice(chars.len() - 1);
                    children.push(fixed::Content::Text(chars[..at].iter().collect()));
                    children.push(fixed::Content::Text(chars[at..].iter().collect()));
                    *splits += 1;
                } else {
                    children.push(fixed::Content::Text(t.clone()));
                }
            }
            ANode::Comment(t) => children.push(fixed::Content::Comment(t.clone())),
            ANode::PI(t, d) => children.push(fixed::Content::ProcessingInstruction(fixed::ProcessingInstruction { target: t.clone(), content: d.clone() })),
            _ => unreachable!(),
        }
    }
    fixed::Element { children, ..fixed_element(&AElem { children: vec![], ..e.clone() }) }
}

fn fixed_misc(n: &ANode) -> fixed::DocumentContent {
    match n {
        ANode::Comment(t) => fixed::DocumentContent::Comment(t.clone()),
        ANode::PI(t, d) => fixed::DocumentContent::ProcessingInstruction(fixed::ProcessingInstruction { target: t.clone(), content: d.clone() }),
        _ => unreachable!(),
    }
}

/// route 4: stepwise creation in which every text node arrives in up to three pieces. The
/// non-text children of a container are placed first (left to right), then each text grows
/// as one contiguous run, piece by piece, to the left or to the right, through a generated
/// choice of append / prepend / insert_before / insert_after relative to the run itself or
/// to its non-text neighbour. Text consolidation (on by default) must merge every piece, so
/// the construction ends in the same abstract document.
fn build_pieces(xot: &mut Xot, a: &ANode, src: &mut Src, pieces_used: &mut usize) -> Result<Node, String> {
    let holder = match a {
        ANode::Document(_) => xot.new_document(),
        ANode::Element(e) => {
            let id = crate::bridge::name_id(xot, &e.name);
            let el = xot.new_element(id);
            // every declaration and attribute is set twice: first, in order, with a provisional value, then
            // (last to first) with the final one — setting an existing key replaces the value and nothing else
            let provisional = xot.add_namespace("urn:provisional");
            for (p, _) in &e.decls {
                let p = xot.add_prefix(p);
                xot.namespaces_mut(el).insert(p, provisional);
            }
            for (p, u) in e.decls.iter().rev() {
                let p = xot.add_prefix(p);
                let u = xot.add_namespace(u);
                xot.namespaces_mut(el).insert(p, u);
            }
            for (q, _) in &e.attrs {
                let id = crate::bridge::name_id(xot, q);
                xot.set_attribute(el, id, "provisional");
            }
            for (q, v) in e.attrs.iter().rev() {
                let id = crate::bridge::name_id(xot, q);
                xot.set_attribute(el, id, v.clone());
            }
            el
        }
        ANode::Text(t) => return Ok(xot.new_text(t)),
        ANode::Comment(t) => return Ok(xot.new_comment(t)),
        ANode::PI(t, d) => {
            let id = xot.add_name(t);
            return Ok(xot.new_processing_instruction(id, d.as_deref()));
        }
        other => return Err(format!("build_pieces: cannot build {:?}", other)),
    };
    let ch = a.children();
    // non-text children first
    let mut placed: Vec<Option<Node>> = vec![None; ch.len()];
    for (i, c) in ch.iter().enumerate() {
        if !c.is_text() {
            let n = build_pieces(xot, c, src, pieces_used)?;
            xot.append(holder, n).map_err(|e| format!("append: {}", e))?;
            placed[i] = Some(n);
        }
    }
    for (i, c) in ch.iter().enumerate() {
        let t = match c {
            ANode::Text(t) => t,
            _ => continue,
        };
        let prev = if i > 0 { placed[i - 1] } else { None };
        let next = if i + 1 < ch.len() { placed[i + 1] } else { None };
        // cut into 1..=3 pieces at character boundaries
        let chars: Vec<char> = t.chars().collect();
        let k = if chars.len() < 2 { 1 } else { 1 + src.choice(3.min(chars.len())) };
        let mut cuts = vec![0usize];
        for j in 1..k {
            let lo = cuts[j - 1] + 1;
            let hi = chars.len() - (k - j);
            cuts.push(lo + src.choice(hi - lo + 1));
        }
        cuts.push(chars.len());
        let piece = |j: usize| -> String { chars[cuts[j]..cuts[j + 1]].iter().collect() };
        *pieces_used += k - 1;
        // the run [lo, hi) of pieces already in place
        let first = src.choice(k);
        let (mut lo, mut hi) = (first, first + 1);
        let run_node = |xot: &Xot| -> Result<Node, String> {
            match prev {
                Some(p) => xot.next_sibling(p),
                None => xot.first_child(holder),
            }
            .ok_or_else(|| "the text run has vanished".to_string())
        };
        {
            let n = xot.new_text(&piece(first));
            let r = match (prev, next, src.choice(2)) {
                (Some(p), _, 0) => xot.insert_after(p, n),
                (_, Some(nx), _) => xot.insert_before(nx, n),
                (Some(p), None, _) => xot.insert_after(p, n),
                (None, None, 0) => xot.append(holder, n),
                (None, None, _) => xot.prepend(holder, n),
            };
            r.map_err(|e| format!("placing the first piece: {}", e))?;
        }
        while lo > 0 || hi < k {
            let left = if lo == 0 {
                false
            } else if hi == k {
                true
            } else {
                src.bool()
            };
            if left {
                lo -= 1;
                let n = xot.new_text(&piece(lo));
                let run = run_node(xot)?;
                let r = match (prev, src.choice(2)) {
                    (Some(p), 0) => xot.insert_after(p, n),
                    (None, 0) => xot.prepend(holder, n),
                    _ => xot.insert_before(run, n),
                };
                r.map_err(|e| format!("growing a text run to the left: {}", e))?;
            } else {
                let n = xot.new_text(&piece(hi));
                hi += 1;
                let run = run_node(xot)?;
                let r = match (next, src.choice(2)) {
                    (Some(nx), 0) => xot.insert_before(nx, n),
                    (None, 0) => xot.append(holder, n),
                    _ => xot.insert_after(run, n),
                };
                r.map_err(|e| format!("growing a text run to the right: {}", e))?;
            }
        }
    }
    Ok(holder)
}

impl Property for C20 {
    fn id(&self) -> &'static str {
        "C20"
    }
    fn rule(&self) -> &'static str {
        "case = normalised abstract document (comments and PIs before and after the document element, declarations, attributes, all node kinds) or a single element; built (1) by parsing a canonical rendering, (2) by fixed::Document / fixed::Element xotify, (3) by stepwise creation in a construction order drawn from the case (append left-to-right, prepend right-to-left, insert_before right-to-left, bottom-up with insert_after; attributes/declarations through the map views or as nodes), (4) stepwise with every text node arriving in up to three pieces that grow a contiguous run to the left or right through append / prepend / insert_before / insert_after next to the run or next to its non-text neighbour (consolidation must merge them). The read-backs must be equal including declaration order, attribute order and top-level sibling order, pairwise deep_equal, and to_string byte-identical. Non-trivial = a comment/PI after the document element, or >= 2 distinct construction orders used inside the stepwise route. Distinct by hash of (document, construction orders)."
    }
    fn plans(&self, tier: Tier) -> Vec<Plan> {
        let mk = |name: &'static str, cases, variant| Plan {
            name,
            kind: PlanKind::Random { cases, max_len: 1200 },
            knobs: Knobs { max_nodes: 30, variant, ..Default::default() },
        };
        match tier {
            Tier::Quick => vec![mk("documents", 250_000, 0), mk("elements", 80_000, 1)],
            Tier::Thorough => vec![mk("documents", 2_000_000, 0), mk("elements", 600_000, 1)],
        }
    }

    fn check(&self, src: &mut Src, ctx: &mut Ctx) -> Verdict {
        let mut o = TreeOpts::xml(ctx.knobs.max_nodes);
        // top-level misc is what this property is about: make it frequent
        o.comments = true;
        o.pis = true;
        let doc = if ctx.knobs.variant == 0 { gen::gen_document(src, &o) } else { gen::gen_element_tree(src, &o) };
        let is_doc = matches!(doc, ANode::Document(_));
        let mut xot = Xot::new();
        ctx.rendering(|| doc.show());
        let r: Result<(), String> = (|| {
            // route 1: parse
            let text = render::render_plain(&doc, false).map_err(|e| format!("harness: {}", e))?;
            let parsed_doc = guarded(|| xot.parse(&text)).map_err(|p| format!("parse panicked: {}", p))?;
            let parsed_doc = match parsed_doc {
                Ok(d) => d,
                Err(_) => {
                    ctx.label("rendering_rejected");
                    return Ok(());
                }
            };
            let by_parse = if is_doc { parsed_doc } else { xot.document_element(parsed_doc).map_err(|e| e.to_string())? };
            // route 2: fixed
            let by_fixed = match &doc {
                ANode::Document(ch) => {
                    let pos = ch.iter().position(|c| matches!(c, ANode::Element(_))).ok_or("harness: no element")?;
                    let fd = fixed::Document {
                        before: ch[..pos].iter().map(fixed_misc).collect(),
                        document_element: fixed_element(ch[pos].as_elem().unwrap()),
                        after: ch[pos + 1..].iter().map(fixed_misc).collect(),
                    };
                    if pos + 1 < ch.len() {
                        ctx.label("content_after_root");
                    }
                    if pos > 0 {
                        ctx.label("content_before_root");
                    }
                    guarded(|| fd.xotify(&mut xot)).map_err(|p| format!("fixed::Document::xotify panicked: {}", p))?
                }
                ANode::Element(e) => {
                    let fe = fixed_element(e);
                    guarded(|| fe.xotify(&mut xot)).map_err(|p| format!("fixed::Element::xotify panicked: {}", p))?
                }
                _ => return Err("harness".into()),
            };
            // route 3: stepwise
            let mut orders = vec![];
            let by_steps = bridge::build_ordered(&mut xot, &doc, src, &mut orders).map_err(|e| format!("stepwise construction refused: {}", e))?;
            let mut distinct = orders.clone();
            distinct.sort();
            distinct.dedup();
            ctx.fingerprint(&(doc.clone(), orders));
            let after_root = matches!(&doc, ANode::Document(ch) if ch.iter().position(|c| matches!(c, ANode::Element(_))).map(|p| p + 1 < ch.len()).unwrap_or(false));
            ctx.nontrivial = after_root || distinct.len() >= 2;
            // route 4 (drawn last): text arrives in pieces
            let mut pieces_used = 0;
            let by_pieces = build_pieces(&mut xot, &doc, src, &mut pieces_used).map_err(|e| format!("stepwise construction with text pieces refused: {}", e))?;
            if pieces_used > 0 {
                ctx.label("text_built_from_pieces");
            }
            let d = bridge::read(&xot, by_pieces)?;
            same_tree(&d, &doc, Cmp::exact()).map_err(|e| format!("stepwise route with text arriving in pieces differs from the abstract document: {}", e))?;
            if !xot.deep_equal(by_parse, by_pieces) {
                return Err("the tree built with text pieces reads back equal but is not deep_equal to the parsed one".into());
            }

            let a = bridge::read(&xot, by_parse)?;
            let b = bridge::read(&xot, by_fixed)?;
            let c = bridge::read(&xot, by_steps)?;
            same_tree(&a, &doc, Cmp::exact()).map_err(|e| format!("parse route differs from the abstract document: {}", e))?;
            same_tree(&b, &doc, Cmp::exact()).map_err(|e| format!("fixed::xotify route differs from the abstract document: {}", e))?;
            same_tree(&c, &doc, Cmp::exact()).map_err(|e| format!("stepwise route differs from the abstract document: {}", e))?;
            if !xot.deep_equal(by_parse, by_fixed) || !xot.deep_equal(by_fixed, by_steps) || !xot.deep_equal(by_parse, by_steps) {
                return Err("the three trees read back equal but are not pairwise deep_equal".into());
            }
            let sa = xot.to_string(by_parse).map_err(|e| format!("to_string(parse route): {}", e))?;
            let sb = xot.to_string(by_fixed).map_err(|e| format!("to_string(fixed route): {}", e))?;
            let sc = xot.to_string(by_steps).map_err(|e| format!("to_string(stepwise route): {}", e))?;
            // route 1b (drawn last): parse of a LEXICALLY RICH rendering of the same document
            // (references, CDATA runs, CR / CRLF line ends, alias prefixes, interleaved declarations)
            if let Ok(rich) = render::render(src, &doc, render::Style { fragment: false, prolog: is_doc, ..render::Style::rich() }) {
                // the parse route does not depend on the manipulation option either
                let off = src.ratio(1, 4);
                if off {
                    xot.set_text_consolidation(false);
                    ctx.label("rich_rendering_parsed_with_consolidation_off");
                }
                let parsed = guarded(|| xot.parse(&rich.text));
                xot.set_text_consolidation(true);
                match parsed.map_err(|p| format!("parse of a rich rendering panicked: {}", p))? {
                    Ok(d2) => {
                        ctx.label("rich_rendering_parsed");
                        let by_rich = if is_doc { d2 } else { xot.document_element(d2).map_err(|e| e.to_string())? };
                        let r = bridge::read(&xot, by_rich)?;
                        same_tree(&r, &doc, Cmp::content()).map_err(|e| format!("parse of the rich rendering {:?} differs from the abstract document: {}", rich.text, e))?;
                        if !xot.deep_equal(by_rich, by_steps) {
                            return Err(format!("the tree parsed from the rich rendering {:?} reads back equal but is not deep_equal to the stepwise one", rich.text));
                        }
                    }
                    Err(_) => ctx.label("rich_rendering_rejected"),
                }
            }
            // route 2b (drawn last): the fixed structure with texts given as adjacent Content::Text entries
            {
                let root_el = match &doc {
                    ANode::Document(ch) => ch.iter().find_map(|c| c.as_elem()),
                    ANode::Element(e) => Some(e),
                    _ => None,
                };
                if let Some(e) = root_el {
                    let mut splits = 0;
                    let fe = fixed_element_split(e, src, &mut splits);
                    if splits > 0 {
                        ctx.label("fixed_with_adjacent_text_entries");
                        let n = guarded(|| fe.xotify(&mut xot)).map_err(|p| format!("fixed::Element::xotify panicked: {}", p))?;
                        let r = bridge::read(&xot, n)?;
                        same_tree(&r, &ANode::Element(e.clone()), Cmp::exact())
                            .map_err(|er| format!("fixed::Element with texts given as adjacent Content::Text entries differs from the abstract document: {}", er))?;
                        let other = if is_doc { xot.document_element(by_parse).map_err(|e| e.to_string())? } else { by_parse };
                        if !xot.deep_equal(n, other) {
                            return Err("the tree from a fixed::Element with adjacent text entries is not deep_equal to the parsed one".into());
                        }
                    }
                }
            }
            let sd = xot.to_string(by_pieces).map_err(|e| format!("to_string(stepwise route with text pieces): {}", e))?;
            if sd != sa {
                return Err(format!("serialisations differ: parse {:?} stepwise with text pieces {:?}", sa, sd));
            }
            if sa != sb || sb != sc {
                return Err(format!("serialisations differ: parse {:?} fixed {:?} stepwise {:?}", sa, sb, sc));
            }
            Ok(())
        })();
        match r {
            Ok(()) => Verdict::Pass,
            Err(e) => Verdict::Fail(e),
        }
    }
}
