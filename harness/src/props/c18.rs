//! C18 — whitespace stripping removes exactly the insignificant whitespace.

use crate::engine::runner::guarded;
use crate::engine::{Ctx, Knobs, Plan, PlanKind, Property, Src, Tier, Verdict};
use crate::gen::{self, Alpha, Scoping, TreeOpts};
use crate::model::forest::{Effect, Forest};
use crate::model::{AElem, ANode, MVal, QName, XML_NS};
use crate::props::c05::Sim;

pub struct C18;

fn elements_for_fan(sim: &Sim, all: &[usize]) -> Vec<usize> {
    all.iter().copied().filter(|n| sim.model.nodes[*n].alive && sim.model.is_element(*n)).collect()
}

fn is_xml_ws(s: &str) -> bool {
    s.chars().all(|c| c == ' ' || c == '\t' || c == '\r' || c == '\n')
}

fn preserve(m: &Forest, n: usize) -> bool {
    // nearest xml:space attribute on the ancestor-or-self path decides
    let mut cur = Some(n);
    while let Some(c) = cur {
        for a in m.kids_cat(c, 1) {
            if let MVal::Attribute(q, v) = &m.nodes[a].val {
                if q.ns == XML_NS && q.local == "space" {
                    return v == "preserve";
                }
            }
        }
        cur = m.nodes[c].parent;
    }
    false
}

/// the text nodes in the subtree of `start` the model says must go
pub fn removable(m: &Forest, start: usize) -> Vec<usize> {
    let mut out = vec![];
    for n in m.subtree(start) {
        if let MVal::Text(t) = &m.nodes[n].val {
            if !is_xml_ws(t) {
                continue;
            }
            if preserve(m, n) {
                continue;
            }
            let sibs: Vec<usize> = match m.nodes[n].parent {
                Some(p) => m.ordinary(p),
                None => vec![n],
            };
            let significant_sibling = sibs.iter().any(|s| *s != n && matches!(&m.nodes[*s].val, MVal::Text(t) if !is_xml_ws(t)));
            if !significant_sibling {
                out.push(n);
            }
        }
    }
    out
}

fn sprinkle(n: &mut ANode, src: &mut Src, depth: usize) {
    if let ANode::Element(e) = n {
        if src.ratio(1, 4) && !e.attrs.iter().any(|(q, _)| q.ns == XML_NS && q.local == "space") {
            let v = ["preserve", "default", "other", ""][src.weighted(&[4, 3, 1, 1])];
            e.attrs.push((QName::new(XML_NS, "space"), v.to_string()));
        }
        // make sure whitespace-only text is frequent, next to other text too
        if src.ratio(1, 4) {
            let at = src.choice(e.children.len() + 1);
            e.children.insert(at, ANode::Text([" ", "\n", "x", " y "][src.choice(4)].to_string()));
        }
        if src.ratio(1, 2) {
            let ws = [" ", "\n  ", "\t", "\r\n", "", "\u{a0}", "\u{2003}", " \u{85}", "\u{2028}"][src.weighted(&[5, 4, 2, 2, 1, 2, 1, 1, 1])];
            let at = src.choice(e.children.len() + 1);
            e.children.insert(at, ANode::Text(ws.to_string()));
        }
    }
    if let Some(ch) = n.children_mut() {
        for c in ch.iter_mut() {
            sprinkle(c, src, depth + 1);
        }
    }
}

impl Property for C18 {
    fn id(&self) -> &'static str {
        "C18"
    }
    fn rule(&self) -> &'static str {
        "case = tree with whitespace-only, mixed and non-whitespace text nodes in every sibling arrangement (adjacent text siblings built with consolidation off), text made of U+00A0 / U+2003 / U+0085 / U+2028, xml:space = preserve / default / other / empty nested at any depth, consolidation on or off at call time, and a start node (document, fragment, element, or a leaf). remove_insignificant_whitespace must remove exactly the text nodes the model predicate selects (only XML whitespace; no sibling text with other content; nearest xml:space on the ancestor-or-self path is not preserve): the whole store is compared with the reference forest afterwards (all other nodes, values, order and handle liveness unchanged) and a second call must change nothing. Non-trivial = at least one removable and one non-removable whitespace-only text node in the subtree. Distinct by hash of (tree, start)."
    }
    fn plans(&self, tier: Tier) -> Vec<Plan> {
        let mk = |name: &'static str, cases, max_nodes| Plan {
            name,
            kind: PlanKind::Random { cases, max_len: 1200 },
            knobs: Knobs { max_nodes, ..Default::default() },
        };
        // chains of 1 000 .. 100 000 nested elements, each case in a child process (see deep_chain)
        let deep = |cases| Plan {
            name: "deep-chain",
            kind: PlanKind::Random { cases, max_len: 64 },
            knobs: Knobs { max_nodes: 24, variant: 1, ..Default::default() },
        };
        match tier {
            Tier::Quick => vec![mk("trees", 300_000, 24), deep(32)],
            Tier::Thorough => vec![mk("trees", 1_500_000, 24), mk("trees-big", 60_000, 100), deep(400)],
        }
    }

    fn check(&self, src: &mut Src, ctx: &mut Ctx) -> Verdict {
        if ctx.knobs.variant == 1 {
            return deep_chain(src, ctx);
        }
        let mut o = TreeOpts::xml(ctx.knobs.max_nodes);
        o.alpha = Alpha::Space;
        o.attr_alpha = Alpha::Tiny;
        o.scoping = Scoping::None;
        o.raw_text = true;
        o.xml_attrs = false;
        let mut doc = match src.weighted(&[3, 3, 4]) {
            0 => gen::gen_document(src, &o),
            1 => gen::gen_fragment(src, &o),
            _ => gen::gen_element_tree(src, &o),
        };
        sprinkle(&mut doc, src, 0);
        let mut sim = Sim::new();
        let root = match sim.add_start(&doc) {
            Ok(r) => r,
            Err(e) => return Verdict::Fail(format!("harness: {}", e)),
        };
        if src.ratio(1, 3) {
            sim.model.set_consolidation(false);
            sim.xot.set_text_consolidation(false);
            ctx.label("consolidation_off");
        }
        let all = sim.model.subtree(root);
        let start = all[src.choice_big(all.len())];
        ctx.fingerprint(&(doc.clone(), start));
        ctx.rendering(|| format!("{} start=n{} ({})", doc.show(), start, sim.model.nodes[start].val.show()));
        // (late draws) namespace declarations on elements that carry xml:space: namespace nodes
        // come before attribute nodes in an element's child list
        let carriers: Vec<usize> = all
            .iter()
            .copied()
            .filter(|n| {
                sim.model.is_element(*n)
                    && sim.model.kids_cat(*n, 1).iter().any(|a| matches!(&sim.model.nodes[*a].val, MVal::Attribute(q, _) if q.ns == XML_NS && q.local == "space"))
            })
            .collect();
        for c in carriers {
            if src.ratio(1, 2) {
                let op = crate::hist::Op::NsInsert(c, ["", "p"][src.choice(2)].to_string(), "urn:a".to_string());
                let eff = crate::props::c05::apply_model(&mut sim.model, &op);
                sim.grow();
                let hs = sim.h.clone();
                let hf = move |i: usize| hs[i].expect("unbound");
                crate::hist::exec(&mut sim.xot, &op, &hf);
                if let Err(e) = sim.compare(&eff) {
                    return Verdict::Fail(format!("harness: declaring a namespace on an xml:space carrier: {}", e));
                }
                ctx.label("namespace_declaration_beside_xml_space");
            }
        }
        // (late draws) a wide fan: 65..90 empty elements appended to one element, then a text node — a
        // whitespace-only text at the front then has its only significant sibling far away
        if !elements_for_fan(&sim, &all).is_empty() && src.ratio(1, 25) {
            let cands = elements_for_fan(&sim, &all);
            let e = cands[src.choice_big(cands.len())];
            let n = 65 + src.choice(26);
            let mut ops: Vec<crate::hist::Op> = vec![crate::hist::Op::AppendText(e, " ".into())];
            for _ in 0..n {
                ops.push(crate::hist::Op::AppendElement(e, QName::new("", "f")));
            }
            ops.push(crate::hist::Op::AppendText(e, if src.bool() { "x" } else { " " }.into()));
            let last = ops.len() - 1;
            for (k, op) in ops.into_iter().enumerate() {
                let eff = crate::props::c05::apply_model(&mut sim.model, &op);
                sim.grow();
                let hs = sim.h.clone();
                let hf = move |i: usize| hs[i].expect("unbound");
                crate::hist::exec(&mut sim.xot, &op, &hf);
                // (the element appends in between merge nothing; comparing every sixth step keeps the bounded snapshot ahead of the growth)
                if k == 0 || k == last || k % 6 == 0 {
                    if let Err(er) = sim.compare(&eff) {
                        return Verdict::Fail(format!("harness: building a wide fan: {}", er));
                    }
                }
            }
            ctx.label("wide_fan");
        }
        // (late draws) xml:space values that only LOOK like preserve / default: padded, other case
        let elements: Vec<usize> = all.iter().copied().filter(|n| sim.model.is_element(*n)).collect();
        if !elements.is_empty() && src.ratio(1, 3) {
            let e = elements[src.choice_big(elements.len())];
            let v = [" preserve", "preserve ", " preserve ", "Preserve", "preserve\n", " default ", "PRESERVE"][src.choice(7)];
            let op = crate::hist::Op::SetAttribute(e, QName::new(XML_NS, "space"), v.to_string());
            let eff = crate::props::c05::apply_model(&mut sim.model, &op);
            sim.grow();
            let hs = sim.h.clone();
            let hf = move |i: usize| hs[i].expect("unbound");
            crate::hist::exec(&mut sim.xot, &op, &hf);
            if let Err(er) = sim.compare(&eff) {
                return Verdict::Fail(format!("harness: setting an odd xml:space value: {}", er));
            }
            ctx.label("xml_space_value_that_only_looks_like_preserve");
        }
        // (late draws) text made only of characters at or below U+0020 that are NOT XML whitespace
        // (form feed, vertical tab, NUL, unit separator …; only the API can put them there)
        let texts: Vec<usize> = all.iter().copied().filter(|n| sim.model.nodes[*n].alive && matches!(&sim.model.nodes[*n].val, MVal::Text(_))).collect();
        if !texts.is_empty() && src.ratio(1, 3) {
            let t = texts[src.choice_big(texts.len())];
            let v = ["\u{c}", " \u{b} ", "\u{1f}", "\0", "\u{1c}\n", "\u{8}\t", "\u{c}\u{c}"][src.choice(7)];
            let op = crate::hist::Op::TextSet(t, v.to_string());
            let eff = crate::props::c05::apply_model(&mut sim.model, &op);
            sim.grow();
            let hs = sim.h.clone();
            let hf = move |i: usize| hs[i].expect("unbound");
            crate::hist::exec(&mut sim.xot, &op, &hf);
            if let Err(er) = sim.compare(&eff) {
                return Verdict::Fail(format!("harness: setting a control-character text: {}", er));
            }
            ctx.label("control_character_text");
        }
        let to_go = removable(&sim.model, start);
        let ws_total = sim
            .model
            .subtree(start)
            .into_iter()
            .filter(|n| matches!(&sim.model.nodes[*n].val, MVal::Text(t) if is_xml_ws(t) || t.chars().all(char::is_whitespace)))
            .count();
        ctx.nontrivial = !to_go.is_empty() && ws_total > to_go.len();
        if !to_go.is_empty() {
            ctx.label("something_removed");
        }
        let mut eff = Effect::default();
        for n in &to_go {
            if sim.model.nodes[*n].alive {
                let e = sim.model.remove(*n);
                eff.merges.extend(e.merges);
            }
        }
        let hstart = sim.handle(start);
        if let Err(p) = guarded(|| sim.xot.remove_insignificant_whitespace(hstart)) {
            return Verdict::Fail(format!("remove_insignificant_whitespace panicked: {}", p));
        }
        if let Err(e) = sim.compare(&eff) {
            return Verdict::Fail(format!("after remove_insignificant_whitespace(n{}): {} [expected to remove {:?}]", start, e, to_go));
        }
        // second call changes nothing (if the start node still exists)
        if sim.model.nodes[start].alive {
            if let Err(p) = guarded(|| sim.xot.remove_insignificant_whitespace(hstart)) {
                return Verdict::Fail(format!("second call panicked: {}", p));
            }
            let again = removable(&sim.model, start);
            if !again.is_empty() {
                return Verdict::Fail(format!("harness: model predicate is not idempotent: {:?}", again));
            }
            if let Err(e) = sim.compare(&Effect::default()) {
                return Verdict::Fail(format!("a second call changed the tree: {}", e));
            }
        }
        let _ = AElem::default();
        Verdict::Pass
    }
}

/// plan deep-chain: "all trees" includes deep ones. A chain of `depth` nested elements with a
/// whitespace-only text node beside the child element at three levels and xml:space="preserve" /
/// "default" at two generated levels. The call runs in a child process (this binary, subcommand
/// deep-c18), because running out of stack cannot be caught in-process; the child checks which of
/// the three text nodes are left. Harness code on this path is iterative. The child is a crate of its
/// own (harness/deep) that depends on xot only and is built WITHOUT optimisation: optimised code turns
/// simple recursion into loops or tiny frames, a debug build (what `cargo test` and `cargo run` give a
/// user) does not. The call runs on a thread with Rust's default thread stack (2 MiB).
fn deep_chain(src: &mut Src, ctx: &mut Ctx) -> Verdict {
    let depth = 1000 + src.choice_big(99_001);
    // 0 = no such attribute; otherwise the level that carries it
    let preserve_at = if src.bool() { 1 + src.choice_big(depth) } else { 0 };
    let default_at = if src.bool() { 1 + src.choice_big(depth) } else { 0 };
    ctx.fingerprint(&(depth, preserve_at, default_at));
    ctx.rendering(|| format!("chain of {} elements, xml:space=preserve at level {}, xml:space=default at level {} (0 = none)", depth, preserve_at, default_at));
    ctx.nontrivial = depth >= 20_000;
    let exe = deep_binary();
    let out = std::process::Command::new(exe).arg(depth.to_string()).arg(preserve_at.to_string()).arg(default_at.to_string()).output();
    match out {
        Err(e) => Verdict::Fail(format!("harness: cannot start the child process: {}", e)),
        Ok(o) => match o.status.code() {
            Some(0) => Verdict::Pass,
            Some(3) => Verdict::Fail(format!("chain of depth {}: {}", depth, String::from_utf8_lossy(&o.stdout).trim())),
            other => Verdict::Fail(format!(
                "remove_insignificant_whitespace on a chain of {} nested elements ended the process ({}): {}",
                depth,
                match other {
                    Some(c) => format!("exit code {}", c),
                    None => "killed by a signal, e.g. stack overflow".to_string(),
                },
                String::from_utf8_lossy(&o.stderr).lines().last().unwrap_or("").trim()
            )),
        },
    }
}

/// the child binary (harness/deep, depends on xot only), built once per run in the dev profile from the
/// current tree of the xot dependency; a build failure is inconclusive (exit 2), never a violation
fn deep_binary() -> std::path::PathBuf {
    static BUILT: std::sync::OnceLock<std::path::PathBuf> = std::sync::OnceLock::new();
    BUILT
        .get_or_init(|| {
            let dir = std::path::Path::new(env!("CARGO_MANIFEST_DIR")).join("deep");
            let st = std::process::Command::new("cargo")
                .arg("build")
                .arg("--offline")
                .arg("-q")
                .arg("--manifest-path")
                .arg(dir.join("Cargo.toml"))
                .arg("--target-dir")
                .arg(dir.join("target"))
                .env("CARGO_NET_OFFLINE", "true")
                .stdout(std::process::Stdio::null())
                .stderr(std::process::Stdio::null())
                .status();
            let bin = dir.join("target").join("debug").join("xvf-deep");
            if !matches!(st, Ok(s) if s.success()) || !bin.exists() {
                eprintln!("INCONCLUSIVE: cannot build {} (cargo build --offline, dev profile)", dir.display());
                std::process::exit(2);
            }
            bin
        })
        .clone()
}
