//! A small tokenizer for serializer output, written independently of xot and
//! xmlparser, plus a namespace resolver implementing Namespaces in XML 1.0.
//! Used wherever a property says the output must be read "independently".

use crate::model::scope::{self, Scope};
use crate::model::{AElem, ANode, QName};

#[derive(Clone, Debug, PartialEq, Eq)]
pub enum Tok {
    Decl(String),
    Doctype(String),
    Start {
        name: String,
        /// raw attributes in document order (xmlns declarations included), values still escaped
        attrs: Vec<(String, String)>,
        empty: bool,
    },
    End(String),
    /// raw (still escaped) character data
    Text(String),
    CData(String),
    Comment(String),
    PI(String, Option<String>),
}

fn is_ws(c: char) -> bool {
    c == ' ' || c == '\t' || c == '\n' || c == '\r'
}

pub fn tokenize(s: &str) -> Result<Vec<Tok>, String> {
    let mut out = vec![];
    let b = s;
    let mut i = 0;
    let n = b.len();
    while i < n {
        let rest = &b[i..];
        if rest.starts_with("<?") {
            let end = rest.find("?>").ok_or("unterminated PI")?;
            let body = &rest[2..end];
            let (target, data) = match body.find(is_ws) {
                Some(p) => {
                    let d = body[p..].trim_start_matches(is_ws);
                    (&body[..p], if d.is_empty() { None } else { Some(d.to_string()) })
                }
                None => (body, None),
            };
            if target == "xml" {
                out.push(Tok::Decl(body.to_string()));
            } else {
                out.push(Tok::PI(target.to_string(), data));
            }
            i += end + 2;
        } else if rest.starts_with("<!--") {
            let end = rest[4..].find("-->").ok_or("unterminated comment")?;
            out.push(Tok::Comment(rest[4..4 + end].to_string()));
            i += 4 + end + 3;
        } else if rest.starts_with("<![CDATA[") {
            let end = rest[9..].find("]]>").ok_or("unterminated CDATA")?;
            out.push(Tok::CData(rest[9..9 + end].to_string()));
            i += 9 + end + 3;
        } else if rest.starts_with("<!DOCTYPE") || rest.starts_with("<!doctype") {
            let end = rest.find('>').ok_or("unterminated doctype")?;
            out.push(Tok::Doctype(rest[..=end].to_string()));
            i += end + 1;
        } else if rest.starts_with("</") {
            let end = rest.find('>').ok_or("unterminated end tag")?;
            out.push(Tok::End(rest[2..end].trim_end_matches(is_ws).to_string()));
            i += end + 1;
        } else if rest.starts_with('<') {
            // start tag
            let mut j = 1;
            let cs: Vec<(usize, char)> = rest.char_indices().collect();
            let mut k = 1; // index into cs
            while k < cs.len() && !is_ws(cs[k].1) && cs[k].1 != '>' && cs[k].1 != '/' {
                k += 1;
            }
            if k >= cs.len() {
                return Err("unterminated start tag".into());
            }
            let name = rest[j..cs[k].0].to_string();
            if name.is_empty() {
                return Err(format!("empty tag name at byte {}", i));
            }
            let mut attrs = vec![];
            let empty;
            loop {
                while k < cs.len() && is_ws(cs[k].1) {
                    k += 1;
                }
                if k >= cs.len() {
                    return Err("unterminated start tag".into());
                }
                if cs[k].1 == '>' {
                    empty = false;
                    j = cs[k].0 + 1;
                    break;
                }
                if cs[k].1 == '/' {
                    if k + 1 < cs.len() && cs[k + 1].1 == '>' {
                        empty = true;
                        j = cs[k + 1].0 + 1;
                        break;
                    }
                    return Err("stray / in start tag".into());
                }
                let a0 = cs[k].0;
                while k < cs.len() && !is_ws(cs[k].1) && cs[k].1 != '=' && cs[k].1 != '>' && cs[k].1 != '/' {
                    k += 1;
                }
                if k >= cs.len() {
                    return Err("unterminated start tag".into());
                }
                let aname = rest[a0..cs[k].0].to_string();
                while k < cs.len() && is_ws(cs[k].1) {
                    k += 1;
                }
                if k < cs.len() && cs[k].1 == '=' {
                    k += 1;
                    while k < cs.len() && is_ws(cs[k].1) {
                        k += 1;
                    }
                    if k >= cs.len() {
                        return Err("unterminated attribute".into());
                    }
                    let q = cs[k].1;
                    if q != '"' && q != '\'' {
                        return Err(format!("attribute {} value is not quoted", aname));
                    }
                    k += 1;
                    let v0 = if k < cs.len() { cs[k].0 } else { rest.len() };
                    while k < cs.len() && cs[k].1 != q {
                        k += 1;
                    }
                    if k >= cs.len() {
                        return Err("unterminated attribute value".into());
                    }
                    attrs.push((aname, rest[v0..cs[k].0].to_string()));
                    k += 1;
                } else {
                    // HTML boolean attribute
                    attrs.push((aname, String::new()));
                }
            }
            out.push(Tok::Start { name, attrs, empty });
            i += j;
        } else {
            let end = rest.find('<').unwrap_or(rest.len());
            out.push(Tok::Text(rest[..end].to_string()));
            i += end;
        }
    }
    Ok(out)
}

/// Decode character and predefined entity references of well-formed output.
pub fn unescape(s: &str) -> Result<String, String> {
    let mut out = String::new();
    let mut rest = s;
    while let Some(p) = rest.find('&') {
        out.push_str(&rest[..p]);
        let after = &rest[p + 1..];
        let semi = after.find(';').ok_or_else(|| format!("reference without ';' in {:?}", s))?;
        let name = &after[..semi];
        match name {
            "amp" => out.push('&'),
            "lt" => out.push('<'),
            "gt" => out.push('>'),
            "quot" => out.push('"'),
            "apos" => out.push('\''),
            "nbsp" => out.push('\u{a0}'),
            _ => {
                let code = if let Some(h) = name.strip_prefix("#x") {
                    u32::from_str_radix(h, 16).ok()
                } else if let Some(d) = name.strip_prefix('#') {
                    d.parse::<u32>().ok()
                } else {
                    None
                };
                let c = code
                    .and_then(char::from_u32)
                    .ok_or_else(|| format!("unknown reference &{};", name))?;
                out.push(c);
            }
        }
        rest = &after[semi + 1..];
    }
    out.push_str(rest);
    Ok(out)
}

pub fn split_qname(n: &str) -> (&str, &str) {
    match n.find(':') {
        Some(p) => (&n[..p], &n[p + 1..]),
        None => ("", n),
    }
}

/// Build the abstract document a token stream denotes (XML rules: line ends in
/// the output are taken literally — callers that need XML line-end
/// normalisation apply it to the text before tokenizing).
/// Adjacent text/CDATA runs become one text node. The result is a Document node.
pub fn to_adoc(toks: &[Tok]) -> Result<ANode, String> {
    struct Frame {
        elem: AElem,
        raw_name: String,
        scope: Scope,
    }
    let mut stack: Vec<Frame> = vec![];
    let mut top: Vec<ANode> = vec![];
    fn push(stack: &mut Vec<Frame>, top: &mut Vec<ANode>, n: ANode) {
        let list = match stack.last_mut() {
            Some(f) => &mut f.elem.children,
            None => top,
        };
        if let ANode::Text(t) = &n {
            if let Some(ANode::Text(prev)) = list.last_mut() {
                prev.push_str(t);
                return;
            }
        }
        list.push(n);
    }
    for t in toks {
        match t {
            Tok::Decl(_) | Tok::Doctype(_) => {}
            Tok::Start { name, attrs, empty } => {
                let parent_scope = stack.last().map(|f| f.scope.clone()).unwrap_or_else(scope::base_scope);
                let mut decls = vec![];
                for (an, av) in attrs {
                    if an == "xmlns" {
                        decls.push((String::new(), unescape(av)?));
                    } else if let Some(p) = an.strip_prefix("xmlns:") {
                        decls.push((p.to_string(), unescape(av)?));
                    }
                }
                let sc = scope::push(&parent_scope, &decls);
                let (p, l) = split_qname(name);
                let ns = scope::resolve_element(&sc, p).ok_or_else(|| format!("element prefix {:?} is not bound", p))?;
                let mut e = AElem {
                    name: QName::new(&ns, l),
                    decls,
                    attrs: vec![],
                    children: vec![],
                };
                for (an, av) in attrs {
                    if an == "xmlns" || an.starts_with("xmlns:") {
                        continue;
                    }
                    let (p, l) = split_qname(an);
                    let ns = scope::resolve_attribute(&sc, p).ok_or_else(|| format!("attribute prefix {:?} is not bound", p))?;
                    let q = QName::new(&ns, l);
                    if e.attrs.iter().any(|(oq, _)| *oq == q) {
                        return Err(format!("attribute {} occurs twice on <{}>", q.show(), name));
                    }
                    e.attrs.push((q, unescape(av)?));
                }
                if *empty {
                    push(&mut stack, &mut top, ANode::Element(e));
                } else {
                    stack.push(Frame {
                        elem: e,
                        raw_name: name.clone(),
                        scope: sc,
                    });
                }
            }
            Tok::End(name) => {
                let f = stack.pop().ok_or_else(|| format!("stray end tag </{}>", name))?;
                if f.raw_name != *name {
                    return Err(format!("end tag </{}> closes <{}>", name, f.raw_name));
                }
                push(&mut stack, &mut top, ANode::Element(f.elem));
            }
            Tok::Text(raw) => {
                if raw.contains("]]>") {
                    return Err("raw ]]> in character data".into());
                }
                let t = unescape(raw)?;
                if !t.is_empty() {
                    push(&mut stack, &mut top, ANode::Text(t));
                }
            }
            Tok::CData(raw) => {
                if !raw.is_empty() {
                    push(&mut stack, &mut top, ANode::Text(raw.clone()));
                }
            }
            Tok::Comment(c) => push(&mut stack, &mut top, ANode::Comment(c.clone())),
            Tok::PI(t, d) => push(&mut stack, &mut top, ANode::PI(t.clone(), d.clone())),
        }
    }
    if let Some(f) = stack.last() {
        return Err(format!("<{}> is never closed", f.raw_name));
    }
    Ok(ANode::Document(top))
}

/// XML 1.0 §2.11 line-end normalisation (applied by any conforming parser before tokenizing)
pub fn normalize_line_ends(s: &str) -> String {
    s.replace("\r\n", "\n").replace('\r', "\n")
}

/// XML 1.0 §3.3.3 attribute-value normalisation of *literal* whitespace in a raw value
/// (references are decoded afterwards and stay as they are)
pub fn read_document(s: &str) -> Result<ANode, String> {
    let norm = normalize_line_ends(s);
    let toks = tokenize(&norm)?;
    // literal TAB / LF inside attribute values become spaces
    let toks: Vec<Tok> = toks
        .into_iter()
        .map(|t| match t {
            Tok::Start { name, attrs, empty } => Tok::Start {
                name,
                attrs: attrs
                    .into_iter()
                    .map(|(k, v)| (k, v.replace('\t', " ").replace('\n', " ")))
                    .collect(),
                empty,
            },
            o => o,
        })
        .collect();
    to_adoc(&toks)
}

/// like `read_document`, for a complete XML document: white space between the
/// top-level constructs (after the XML declaration, around the root) is not content
pub fn read_xml_document(s: &str) -> Result<ANode, String> {
    match read_document(s)? {
        ANode::Document(ch) => Ok(ANode::Document(
            ch.into_iter()
                .filter(|c| !matches!(c, ANode::Text(t) if t.chars().all(|c| c == ' ' || c == '\t' || c == '\n')))
                .collect(),
        )),
        other => Ok(other),
    }
}

#[cfg(test)]
mod tests {
    use super::*;
    #[test]
    fn basic() {
        let d = read_document("<?xml version=\"1.0\"?><a xmlns:p=\"u\" p:x=\"1&amp;2\"><!--c--><p:b/>t<![CDATA[<]]></a>").unwrap();
        assert_eq!(
            d.show(),
            "#doc[<a xmlns:p=\"u\" {u}x=\"1&2\"><!--\"c\"--><{u}b></>T\"t<\"</>]"
        );
    }
}
