//! Independent readers of serializer output (no xot, no xmlparser).
pub mod xmltok;
pub mod htmltok;
