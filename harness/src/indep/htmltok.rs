//! HTML-flavoured tokenizer for the output of the HTML5 serializer: raw-text
//! `script` / `style`, processing instructions that end at `>`, attributes
//! without value, no self-closing. Independent of xot.

pub use super::xmltok::Tok;

fn is_ws(c: char) -> bool {
    c == ' ' || c == '\t' || c == '\n' || c == '\r'
}

/// `raw_text`: predicate on the tag name as written telling whether the element's content is raw text
pub fn tokenize(s: &str, raw_text: &dyn Fn(&str, &[(String, String)]) -> bool) -> Result<Vec<Tok>, String> {
    let mut out = vec![];
    let mut i = 0;
    let n = s.len();
    while i < n {
        let rest = &s[i..];
        if rest.starts_with("<!--") {
            let end = rest[4..].find("-->").ok_or("unterminated comment")?;
            out.push(Tok::Comment(rest[4..4 + end].to_string()));
            i += 4 + end + 3;
        } else if rest.starts_with("<![CDATA[") {
            let end = rest[9..].find("]]>").ok_or("unterminated CDATA")?;
            out.push(Tok::CData(rest[9..9 + end].to_string()));
            i += 9 + end + 3;
        } else if rest.starts_with("<!DOCTYPE") || rest.starts_with("<!doctype") {
            let end = rest.find('>').ok_or("unterminated doctype")?;
            out.push(Tok::Doctype(rest[..=end].to_string()));
            i += end + 1;
        } else if rest.starts_with("<?") {
            let end = rest.find('>').ok_or("unterminated PI")?;
            let body = &rest[2..end];
            let (target, data) = match body.find(is_ws) {
                Some(p) => (&body[..p], Some(body[p + 1..].to_string())),
                None => (body, None),
            };
            out.push(Tok::PI(target.to_string(), data));
            i += end + 1;
        } else if rest.starts_with("</") {
            let end = rest.find('>').ok_or("unterminated end tag")?;
            out.push(Tok::End(rest[2..end].trim_end_matches(is_ws).to_string()));
            i += end + 1;
        } else if rest.starts_with('<') {
            // start tag: reuse the XML tokenizer on this tag alone
            let mut j = 1;
            let bytes: Vec<(usize, char)> = rest.char_indices().collect();
            let mut k = 1;
            let mut quote: Option<char> = None;
            while k < bytes.len() {
                let c = bytes[k].1;
                match quote {
                    Some(q) => {
                        if c == q {
                            quote = None;
                        }
                    }
                    None => {
                        if c == '"' || c == '\'' {
                            quote = Some(c);
                        } else if c == '>' {
                            j = bytes[k].0 + 1;
                            break;
                        }
                    }
                }
                k += 1;
            }
            if k >= bytes.len() {
                return Err("unterminated start tag".into());
            }
            let tag = &rest[..j];
            let toks = super::xmltok::tokenize(tag).map_err(|e| format!("start tag {:?}: {}", tag, e))?;
            let t = toks.into_iter().next().ok_or("empty tag")?;
            i += j;
            if let Tok::Start { name, attrs, empty } = &t {
                if !*empty && raw_text(name, attrs) {
                    // raw text up to the matching end tag
                    let close = format!("</{}", name);
                    let end = s[i..].find(&close).ok_or_else(|| format!("raw text element <{}> is never closed", name))?;
                    out.push(t.clone());
                    if end > 0 {
                        out.push(Tok::CData(format!("\u{0}RAW{}", &s[i..i + end])));
                    }
                    i += end;
                    continue;
                }
            }
            out.push(t);
        } else {
            let end = rest.find('<').unwrap_or(rest.len());
            out.push(Tok::Text(rest[..end].to_string()));
            i += end;
        }
    }
    Ok(out)
}

/// is every '&' in this raw string the start of a well-formed reference?
pub fn ampersands_ok(raw: &str) -> bool {
    let mut rest = raw;
    while let Some(p) = rest.find('&') {
        let after = &rest[p + 1..];
        let semi = match after.find(';') {
            Some(s) => s,
            None => return false,
        };
        let name = &after[..semi];
        let ok = if let Some(h) = name.strip_prefix("#x") {
            !h.is_empty() && h.chars().all(|c| c.is_ascii_hexdigit())
        } else if let Some(d) = name.strip_prefix('#') {
            !d.is_empty() && d.chars().all(|c| c.is_ascii_digit())
        } else {
            !name.is_empty() && name.chars().all(|c| c.is_ascii_alphanumeric())
        };
        if !ok {
            return false;
        }
        rest = &after[semi + 1..];
    }
    true
}
