//! xvf — property-based verification harness for faassen/xot (see /verif/DESIGN.md)
pub mod bridge;
pub mod engine;
pub mod gen;
pub mod hist;
pub mod indep;
pub mod model;
pub mod props;
