//! Ordered-forest reference model with node identities (C05, C11, C12, C18).
//!
//! Written from the crate documentation of xot's manipulation API, not from its
//! code: a moved subtree leaves its old place (old neighbours that become
//! adjacent text nodes merge when consolidation is on), arrives at the
//! requested place (a text node arriving next to a text node is merged with
//! it, previous sibling preferred), a call asking for the position already
//! occupied changes nothing.

use super::adoc::{AElem, ANode, MVal, QName};

#[derive(Clone, Debug)]
pub struct MNode {
    pub val: MVal,
    pub parent: Option<usize>,
    /// raw order: namespace nodes, attribute nodes, ordinary children
    pub kids: Vec<usize>,
    pub alive: bool,
}

#[derive(Clone, Debug, Default)]
pub struct Effect {
    /// ids created by the op, in creation order
    pub created: Vec<usize>,
    /// (survivor, absorbed) text merges, in order
    pub merges: Vec<(usize, usize)>,
    /// id the call returns, if it returns a node
    pub ret: Option<usize>,
    /// Some(..) value the call returns (old value of a map update etc.)
    pub ret_val: Option<Option<String>>,
}

#[derive(Clone, Debug)]
pub struct Forest {
    pub nodes: Vec<MNode>,
    pub consolidate: bool,
    pub ever_off: bool,
}

impl Default for Forest {
    fn default() -> Self {
        Forest {
            nodes: vec![],
            consolidate: true,
            ever_off: false,
        }
    }
}

impl Forest {
    pub fn new_node(&mut self, val: MVal) -> usize {
        self.nodes.push(MNode {
            val,
            parent: None,
            kids: vec![],
            alive: true,
        });
        self.nodes.len() - 1
    }

    pub fn alive(&self) -> Vec<usize> {
        (0..self.nodes.len()).filter(|i| self.nodes[*i].alive).collect()
    }

    pub fn roots(&self) -> Vec<usize> {
        (0..self.nodes.len())
            .filter(|i| self.nodes[*i].alive && self.nodes[*i].parent.is_none())
            .collect()
    }

    pub fn cat(&self, n: usize) -> u8 {
        self.nodes[n].val.category()
    }

    pub fn is_text(&self, n: usize) -> bool {
        matches!(self.nodes[n].val, MVal::Text(_))
    }

    pub fn is_element(&self, n: usize) -> bool {
        matches!(self.nodes[n].val, MVal::Element(_))
    }

    pub fn is_document(&self, n: usize) -> bool {
        matches!(self.nodes[n].val, MVal::Document)
    }

    pub fn is_ordinary(&self, n: usize) -> bool {
        self.cat(n) == 2
    }

    pub fn kids_cat(&self, p: usize, cat: u8) -> Vec<usize> {
        self.nodes[p]
            .kids
            .iter()
            .copied()
            .filter(|k| self.cat(*k) == cat)
            .collect()
    }

    pub fn ordinary(&self, p: usize) -> Vec<usize> {
        self.kids_cat(p, 2)
    }

    /// previous sibling of the same category
    pub fn prev(&self, n: usize) -> Option<usize> {
        let p = self.nodes[n].parent?;
        let same = self.kids_cat(p, self.cat(n));
        let i = same.iter().position(|k| *k == n)?;
        if i > 0 {
            Some(same[i - 1])
        } else {
            None
        }
    }

    pub fn next(&self, n: usize) -> Option<usize> {
        let p = self.nodes[n].parent?;
        let same = self.kids_cat(p, self.cat(n));
        let i = same.iter().position(|k| *k == n)?;
        same.get(i + 1).copied()
    }

    pub fn is_ancestor_or_self(&self, a: usize, n: usize) -> bool {
        let mut cur = Some(n);
        while let Some(c) = cur {
            if c == a {
                return true;
            }
            cur = self.nodes[c].parent;
        }
        false
    }

    pub fn root_of(&self, n: usize) -> usize {
        let mut cur = n;
        while let Some(p) = self.nodes[cur].parent {
            cur = p;
        }
        cur
    }

    pub fn subtree(&self, n: usize) -> Vec<usize> {
        let mut out = vec![n];
        let mut i = 0;
        while i < out.len() {
            let k = self.nodes[out[i]].kids.clone();
            // preorder: insert kids right after the parent
            let at = i + 1;
            for (j, kid) in k.into_iter().enumerate() {
                out.insert(at + j, kid);
            }
            i += 1;
        }
        out
    }

    fn text_mut(&mut self, n: usize) -> &mut String {
        match &mut self.nodes[n].val {
            MVal::Text(t) => t,
            _ => panic!("model: not text"),
        }
    }

    fn text_of(&self, n: usize) -> String {
        match &self.nodes[n].val {
            MVal::Text(t) => t.clone(),
            _ => panic!("model: not text"),
        }
    }

    fn unlink(&mut self, n: usize) {
        if let Some(p) = self.nodes[n].parent.take() {
            self.nodes[p].kids.retain(|k| *k != n);
        }
    }

    fn kill_subtree(&mut self, n: usize) {
        for k in self.subtree(n) {
            self.nodes[k].alive = false;
        }
    }

    /// old neighbours that become adjacent: merge the later into the earlier
    fn merge_gap(&mut self, prev: Option<usize>, next: Option<usize>, eff: &mut Effect) -> bool {
        if !self.consolidate {
            return false;
        }
        if let (Some(p), Some(n)) = (prev, next) {
            if self.is_text(p) && self.is_text(n) {
                let t = self.text_of(n);
                self.text_mut(p).push_str(&t);
                self.unlink(n);
                self.nodes[n].alive = false;
                eff.merges.push((p, n));
                return true;
            }
        }
        false
    }

    /// insert `c` under `p` so that it becomes the ordinary child number `idx`
    fn link_ordinary(&mut self, p: usize, idx: usize, c: usize) {
        let non_ord = self.nodes[p]
            .kids
            .iter()
            .filter(|k| self.cat(**k) != 2)
            .count();
        self.nodes[p].kids.insert(non_ord + idx, c);
        self.nodes[c].parent = Some(p);
    }

    /// a text node arriving next to a text node is merged with it (previous preferred)
    fn arrive(&mut self, c: usize, eff: &mut Effect) {
        if !self.consolidate || !self.is_text(c) {
            return;
        }
        if let Some(pv) = self.prev(c) {
            if self.is_text(pv) {
                let t = self.text_of(c);
                self.text_mut(pv).push_str(&t);
                self.unlink(c);
                self.nodes[c].alive = false;
                eff.merges.push((pv, c));
                return;
            }
        }
        if let Some(nx) = self.next(c) {
            if self.is_text(nx) {
                let mut t = self.text_of(c);
                t.push_str(&self.text_of(nx));
                *self.text_mut(nx) = t;
                self.unlink(c);
                self.nodes[c].alive = false;
                eff.merges.push((nx, c));
            }
        }
    }

    fn leave(&mut self, c: usize, eff: &mut Effect) -> (Option<usize>, Option<usize>, bool) {
        let (pv, nx) = if self.is_ordinary(c) {
            (self.prev(c), self.next(c))
        } else {
            (None, None)
        };
        self.unlink(c);
        let merged = self.merge_gap(pv, nx, eff);
        (pv, nx, merged)
    }

    // ---------------------------------------------------------------- validity

    fn can_hold(&self, p: usize) -> bool {
        self.is_element(p) || self.is_document(p)
    }

    fn movable(&self, c: usize) -> bool {
        self.is_ordinary(c) && !self.is_document(c)
    }

    pub fn valid_append(&self, p: usize, c: usize) -> bool {
        self.can_hold(p) && self.movable(c) && !self.is_ancestor_or_self(c, p)
    }

    pub fn valid_insert(&self, r: usize, n: usize) -> bool {
        match self.nodes[r].parent {
            None => false,
            Some(p) => {
                self.is_ordinary(r)
                    && self.movable(n)
                    && n != r
                    && !self.is_ancestor_or_self(n, p)
            }
        }
    }

    pub fn valid_replace(&self, o: usize, n: usize) -> bool {
        self.nodes[o].parent.is_some()
            && self.is_ordinary(o)
            && self.movable(n)
            && !self.is_ancestor_or_self(n, o)
            && !self.is_ancestor_or_self(o, n)
    }

    pub fn valid_wrap(&self, n: usize) -> bool {
        if !self.movable(n) {
            return false;
        }
        match self.nodes[n].parent {
            Some(p) if self.is_document(p) => self.is_element(n),
            _ => true,
        }
    }

    pub fn valid_unwrap(&self, e: usize) -> bool {
        if !self.is_element(e) {
            return false;
        }
        let kids = self.ordinary(e);
        match self.nodes[e].parent {
            None => kids.len() <= 1,
            Some(p) if self.is_document(p) => {
                // documented: the document element may be unwrapped only if it
                // has exactly one child, which is an element
                kids.len() == 1 && self.is_element(kids[0])
            }
            Some(_) => true,
        }
    }

    // ---------------------------------------------------------------- operations

    pub fn append(&mut self, p: usize, c: usize) -> Effect {
        let mut eff = Effect::default();
        if self.nodes[c].parent == Some(p) && self.ordinary(p).last() == Some(&c) {
            return eff;
        }
        self.leave(c, &mut eff);
        let n = self.ordinary(p).len();
        self.link_ordinary(p, n, c);
        self.arrive(c, &mut eff);
        eff
    }

    pub fn prepend(&mut self, p: usize, c: usize) -> Effect {
        let mut eff = Effect::default();
        if self.nodes[c].parent == Some(p) && self.ordinary(p).first() == Some(&c) {
            return eff;
        }
        self.leave(c, &mut eff);
        self.link_ordinary(p, 0, c);
        self.arrive(c, &mut eff);
        eff
    }

    pub fn insert_after(&mut self, r: usize, n: usize) -> Effect {
        let mut eff = Effect::default();
        if self.prev(n) == Some(r) {
            return eff;
        }
        let (pv, nx, merged) = self.leave(n, &mut eff);
        // the reference may have been absorbed by its earlier neighbour
        let r = if merged && nx == Some(r) { pv.unwrap() } else { r };
        let p = self.nodes[r].parent.expect("model: reference without parent");
        let idx = self.ordinary(p).iter().position(|k| *k == r).unwrap() + 1;
        self.link_ordinary(p, idx, n);
        self.arrive(n, &mut eff);
        eff
    }

    pub fn insert_before(&mut self, r: usize, n: usize) -> Effect {
        let mut eff = Effect::default();
        if self.next(n) == Some(r) {
            return eff;
        }
        self.leave(n, &mut eff);
        let p = self.nodes[r].parent.expect("model: reference without parent");
        let idx = self.ordinary(p).iter().position(|k| *k == r).unwrap();
        self.link_ordinary(p, idx, n);
        self.arrive(n, &mut eff);
        eff
    }

    pub fn detach(&mut self, n: usize) -> Effect {
        let mut eff = Effect::default();
        self.leave(n, &mut eff);
        eff
    }

    pub fn remove(&mut self, n: usize) -> Effect {
        let mut eff = Effect::default();
        let (pv, nx) = if self.is_ordinary(n) {
            (self.prev(n), self.next(n))
        } else {
            (None, None)
        };
        self.unlink(n);
        self.kill_subtree(n);
        self.merge_gap(pv, nx, &mut eff);
        eff
    }

    pub fn replace(&mut self, o: usize, n: usize) -> Effect {
        let mut eff = Effect::default();
        let p = self.nodes[o].parent.unwrap();
        let prev_o = self.prev(o);
        self.unlink(o);
        self.kill_subtree(o);
        // n takes o's place
        let same_place = match prev_o {
            Some(pv) => pv == n || self.prev(n) == Some(pv),
            None => self.nodes[n].parent == Some(p) && self.ordinary(p).first() == Some(&n),
        };
        if !same_place {
            let (pv, nx, merged) = self.leave(n, &mut eff);
            let mut anchor = prev_o;
            if merged {
                if let Some(a) = anchor {
                    if nx == Some(a) {
                        anchor = pv;
                    }
                }
            }
            let idx = match anchor {
                Some(a) => self.ordinary(p).iter().position(|k| *k == a).unwrap() + 1,
                None => 0,
            };
            self.link_ordinary(p, idx, n);
        }
        // n meets the neighbours of the replaced node; only junctions the call
        // created count (text nodes that were adjacent before, possible after
        // consolidation had been off, are left alone)
        let was_prev_of_o = prev_o == Some(n);
        let prev_junction_new = !same_place || !was_prev_of_o;
        let next_junction_new = !same_place || was_prev_of_o;
        if self.consolidate && self.is_text(n) {
            let mut cur = n;
            if let Some(pv) = self.prev(cur).filter(|_| prev_junction_new) {
                if self.is_text(pv) {
                    let t = self.text_of(cur);
                    self.text_mut(pv).push_str(&t);
                    self.unlink(cur);
                    self.nodes[cur].alive = false;
                    eff.merges.push((pv, cur));
                    cur = pv;
                }
            }
            if let Some(nx) = self.next(cur).filter(|_| next_junction_new) {
                if self.is_text(nx) {
                    if cur == n {
                        // existing node keeps its identity, the added one goes
                        let mut t = self.text_of(cur);
                        t.push_str(&self.text_of(nx));
                        *self.text_mut(nx) = t;
                        self.unlink(cur);
                        self.nodes[cur].alive = false;
                        eff.merges.push((nx, cur));
                    } else {
                        let t = self.text_of(nx);
                        self.text_mut(cur).push_str(&t);
                        self.unlink(nx);
                        self.nodes[nx].alive = false;
                        eff.merges.push((cur, nx));
                    }
                }
            }
        }
        eff
    }

    pub fn wrap(&mut self, n: usize, name: QName) -> Effect {
        let mut eff = Effect::default();
        let w = self.new_node(MVal::Element(name));
        eff.created.push(w);
        eff.ret = Some(w);
        if let Some(p) = self.nodes[n].parent {
            let at = self.nodes[p].kids.iter().position(|k| *k == n).unwrap();
            self.nodes[p].kids[at] = w;
            self.nodes[w].parent = Some(p);
        }
        self.nodes[n].parent = Some(w);
        self.nodes[w].kids.push(n);
        eff
    }

    pub fn unwrap(&mut self, e: usize) -> Effect {
        let mut eff = Effect::default();
        let kids = self.ordinary(e);
        if kids.is_empty() {
            return self.remove(e);
        }
        let abnormal: Vec<usize> = self.nodes[e]
            .kids
            .iter()
            .copied()
            .filter(|k| self.cat(*k) != 2)
            .collect();
        for a in abnormal {
            self.nodes[a].alive = false;
            self.nodes[a].parent = None;
        }
        self.nodes[e].alive = false;
        self.nodes[e].kids.clear();
        match self.nodes[e].parent.take() {
            Some(p) => {
                let at = self.nodes[p].kids.iter().position(|k| *k == e).unwrap();
                self.nodes[p].kids.remove(at);
                for (j, k) in kids.iter().enumerate() {
                    self.nodes[p].kids.insert(at + j, *k);
                    self.nodes[*k].parent = Some(p);
                }
                let first = kids[0];
                let last = *kids.last().unwrap();
                let pv = self.prev(first);
                let nx = self.next(last);
                if self.merge_gap(pv, Some(first), &mut eff) {
                    if first == last {
                        self.merge_gap(pv, nx, &mut eff);
                    } else {
                        self.merge_gap(Some(last), nx, &mut eff);
                    }
                } else {
                    self.merge_gap(Some(last), nx, &mut eff);
                }
            }
            None => {
                for k in kids {
                    self.nodes[k].parent = None;
                }
            }
        }
        eff
    }

    /// deep copy; with consolidation on, adjacent text nodes of the source come out merged
    pub fn clone_node(&mut self, n: usize) -> Effect {
        let mut eff = Effect::default();
        let root = self.copy_rec(n, &mut eff.created);
        eff.ret = Some(root);
        eff
    }

    fn copy_rec(&mut self, n: usize, created: &mut Vec<usize>) -> usize {
        let id = self.new_node(self.nodes[n].val.clone());
        created.push(id);
        let kids = self.nodes[n].kids.clone();
        let mut last_text: Option<usize> = None;
        for k in kids {
            if self.consolidate && self.is_text(k) {
                if let Some(lt) = last_text {
                    let t = self.text_of(k);
                    self.text_mut(lt).push_str(&t);
                    continue;
                }
            }
            let c = self.copy_rec(k, created);
            self.nodes[c].parent = Some(id);
            self.nodes[id].kids.push(c);
            last_text = if self.is_text(c) { Some(c) } else { None };
        }
        id
    }

    fn key_node(&self, e: usize, cat: u8, key: &MVal) -> Option<usize> {
        self.kids_cat(e, cat).into_iter().find(|k| match (&self.nodes[*k].val, key) {
            (MVal::Attribute(a, _), MVal::Attribute(b, _)) => a == b,
            (MVal::Namespace(a, _), MVal::Namespace(b, _)) => a == b,
            _ => false,
        })
    }

    fn link_cat(&mut self, e: usize, n: usize) {
        let cat = self.cat(n);
        let at = self.nodes[e]
            .kids
            .iter()
            .filter(|k| self.cat(**k) <= cat)
            .count();
        self.nodes[e].kids.insert(at, n);
        self.nodes[n].parent = Some(e);
    }

    /// append_attribute_node / append_namespace_node
    pub fn append_keyed_node(&mut self, e: usize, a: usize) -> Effect {
        let mut eff = Effect::default();
        let cat = self.cat(a);
        let key = self.nodes[a].val.clone();
        if let Some(x) = self.key_node(e, cat, &key) {
            // existing entry: value updated in place, the passed node is left alone
            let newv = self.nodes[a].val.clone();
            self.nodes[x].val = newv;
            eff.ret = Some(x);
        } else {
            self.unlink(a);
            self.link_cat(e, a);
            eff.ret = Some(a);
        }
        eff
    }

    /// map-style insert; returns old value
    pub fn map_insert(&mut self, e: usize, val: MVal) -> Effect {
        let mut eff = Effect::default();
        let cat = val.category();
        if let Some(x) = self.key_node(e, cat, &val) {
            let old = match &self.nodes[x].val {
                MVal::Attribute(_, v) => v.clone(),
                MVal::Namespace(_, u) => u.clone(),
                _ => unreachable!(),
            };
            self.nodes[x].val = val;
            eff.ret_val = Some(Some(old));
        } else {
            let n = self.new_node(val);
            eff.created.push(n);
            self.link_cat(e, n);
            eff.ret_val = Some(None);
        }
        eff
    }

    pub fn map_remove(&mut self, e: usize, key: MVal) -> Effect {
        let mut eff = Effect::default();
        let cat = key.category();
        if let Some(x) = self.key_node(e, cat, &key) {
            let old = match &self.nodes[x].val {
                MVal::Attribute(_, v) => v.clone(),
                MVal::Namespace(_, u) => u.clone(),
                _ => unreachable!(),
            };
            self.unlink(x);
            self.nodes[x].alive = false;
            eff.ret_val = Some(Some(old));
        } else {
            eff.ret_val = Some(None);
        }
        eff
    }

    pub fn map_clear(&mut self, e: usize, cat: u8) -> Effect {
        for k in self.kids_cat(e, cat) {
            self.unlink(k);
            self.nodes[k].alive = false;
        }
        Effect::default()
    }

    pub fn map_get(&self, e: usize, key: &MVal) -> Option<String> {
        self.key_node(e, key.category(), key).map(|x| match &self.nodes[x].val {
            MVal::Attribute(_, v) => v.clone(),
            MVal::Namespace(_, u) => u.clone(),
            _ => unreachable!(),
        })
    }

    /// text_content_mut followed by set(s): returns whether a text was available
    pub fn text_content_set(&mut self, n: usize, s: &str) -> Effect {
        let mut eff = Effect::default();
        let kids = self.ordinary(n);
        if kids.is_empty() {
            if self.is_element(n) {
                let t = self.new_node(MVal::Text(s.to_string()));
                eff.created.push(t);
                self.link_ordinary(n, 0, t);
                eff.ret_val = Some(Some(String::new()));
            } else {
                eff.ret_val = Some(None);
            }
        } else if kids.len() == 1 && self.is_text(kids[0]) {
            let old = self.text_of(kids[0]);
            *self.text_mut(kids[0]) = s.to_string();
            eff.ret_val = Some(Some(old));
        } else {
            eff.ret_val = Some(None);
        }
        eff
    }

    /// new node + append
    pub fn append_new(&mut self, p: usize, val: MVal) -> Effect {
        let c = self.new_node(val);
        let mut eff = self.append(p, c);
        eff.created.insert(0, c);
        eff
    }

    pub fn new_document_with_element(&mut self, e: usize) -> Effect {
        let d = self.new_node(MVal::Document);
        let mut eff = self.append(d, e);
        eff.created.insert(0, d);
        eff.ret = Some(d);
        eff
    }

    pub fn set_consolidation(&mut self, b: bool) {
        self.consolidate = b;
        if !b {
            self.ever_off = true;
        }
    }

    /// add a whole abstract tree (used for start forests and parse results);
    /// ids are assigned in the order element, namespaces, attributes, children
    pub fn add_tree(&mut self, a: &ANode, created: &mut Vec<usize>) -> usize {
        match a {
            ANode::Document(ch) => {
                let d = self.new_node(MVal::Document);
                created.push(d);
                for c in ch {
                    let k = self.add_tree(c, created);
                    self.nodes[k].parent = Some(d);
                    self.nodes[d].kids.push(k);
                }
                d
            }
            ANode::Element(e) => {
                let id = self.new_node(MVal::Element(e.name.clone()));
                created.push(id);
                for (p, u) in &e.decls {
                    let k = self.new_node(MVal::Namespace(p.clone(), u.clone()));
                    created.push(k);
                    self.nodes[k].parent = Some(id);
                    self.nodes[id].kids.push(k);
                }
                for (q, v) in &e.attrs {
                    let k = self.new_node(MVal::Attribute(q.clone(), v.clone()));
                    created.push(k);
                    self.nodes[k].parent = Some(id);
                    self.nodes[id].kids.push(k);
                }
                for c in &e.children {
                    let k = self.add_tree(c, created);
                    self.nodes[k].parent = Some(id);
                    self.nodes[id].kids.push(k);
                }
                id
            }
            ANode::Text(t) => {
                let id = self.new_node(MVal::Text(t.clone()));
                created.push(id);
                id
            }
            ANode::Comment(t) => {
                let id = self.new_node(MVal::Comment(t.clone()));
                created.push(id);
                id
            }
            ANode::PI(t, d) => {
                let id = self.new_node(MVal::PI(QName::new("", t), d.clone()));
                created.push(id);
                id
            }
            ANode::Attribute(q, v) => {
                let id = self.new_node(MVal::Attribute(q.clone(), v.clone()));
                created.push(id);
                id
            }
            ANode::Namespace(p, u) => {
                let id = self.new_node(MVal::Namespace(p.clone(), u.clone()));
                created.push(id);
                id
            }
        }
    }

    pub fn to_anode(&self, n: usize) -> ANode {
        match &self.nodes[n].val {
            MVal::Document => {
                ANode::Document(self.ordinary(n).into_iter().map(|k| self.to_anode(k)).collect())
            }
            MVal::Element(q) => ANode::Element(AElem {
                name: q.clone(),
                decls: self
                    .kids_cat(n, 0)
                    .into_iter()
                    .map(|k| match &self.nodes[k].val {
                        MVal::Namespace(p, u) => (p.clone(), u.clone()),
                        _ => unreachable!(),
                    })
                    .collect(),
                attrs: self
                    .kids_cat(n, 1)
                    .into_iter()
                    .map(|k| match &self.nodes[k].val {
                        MVal::Attribute(q, v) => (q.clone(), v.clone()),
                        _ => unreachable!(),
                    })
                    .collect(),
                children: self.ordinary(n).into_iter().map(|k| self.to_anode(k)).collect(),
            }),
            MVal::Text(t) => ANode::Text(t.clone()),
            MVal::Comment(t) => ANode::Comment(t.clone()),
            MVal::PI(t, d) => ANode::PI(
                if t.ns.is_empty() {
                    t.local.clone()
                } else {
                    format!("{{{}}}{}", t.ns, t.local)
                },
                d.clone(),
            ),
            MVal::Attribute(q, v) => ANode::Attribute(q.clone(), v.clone()),
            MVal::Namespace(p, u) => ANode::Namespace(p.clone(), u.clone()),
        }
    }

    pub fn show(&self) -> String {
        self.roots()
            .into_iter()
            .map(|r| format!("n{}:{}", r, self.to_anode(r).show()))
            .collect::<Vec<_>>()
            .join(" | ")
    }
}
