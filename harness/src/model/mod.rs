//! Reference models. Nothing in here uses an xot type.

pub mod adoc;
pub mod forest;
pub mod scope;

pub use adoc::*;
