//! Abstract documents: the "expected answer" owned by the harness.

use std::fmt::Write;

pub const XML_NS: &str = "http://www.w3.org/XML/1998/namespace";

#[derive(Clone, Debug, PartialEq, Eq, Hash, PartialOrd, Ord)]
pub struct QName {
    pub ns: String,
    pub local: String,
}

impl QName {
    pub fn new(ns: &str, local: &str) -> Self {
        QName {
            ns: ns.to_string(),
            local: local.to_string(),
        }
    }
    pub fn show(&self) -> String {
        if self.ns.is_empty() {
            self.local.clone()
        } else {
            format!("{{{}}}{}", self.ns, self.local)
        }
    }
}

/// The value of one node, with all ids resolved to strings.
#[derive(Clone, Debug, PartialEq, Eq, Hash)]
pub enum MVal {
    Document,
    Element(QName),
    Text(String),
    Comment(String),
    PI(QName, Option<String>),
    Attribute(QName, String),
    Namespace(String, String),
}

#[derive(Clone, Copy, Debug, PartialEq, Eq, Hash, PartialOrd, Ord)]
pub enum Kind {
    Document,
    Element,
    Text,
    Comment,
    PI,
    Attribute,
    Namespace,
}

impl MVal {
    pub fn kind(&self) -> Kind {
        match self {
            MVal::Document => Kind::Document,
            MVal::Element(_) => Kind::Element,
            MVal::Text(_) => Kind::Text,
            MVal::Comment(_) => Kind::Comment,
            MVal::PI(..) => Kind::PI,
            MVal::Attribute(..) => Kind::Attribute,
            MVal::Namespace(..) => Kind::Namespace,
        }
    }
    /// 0 = namespace, 1 = attribute, 2 = ordinary
    pub fn category(&self) -> u8 {
        match self {
            MVal::Namespace(..) => 0,
            MVal::Attribute(..) => 1,
            _ => 2,
        }
    }
    pub fn is_ordinary(&self) -> bool {
        self.category() == 2
    }
    pub fn show(&self) -> String {
        match self {
            MVal::Document => "#doc".into(),
            MVal::Element(q) => format!("<{}>", q.show()),
            MVal::Text(t) => format!("text{:?}", t),
            MVal::Comment(t) => format!("comment{:?}", t),
            MVal::PI(t, d) => format!("pi({},{:?})", t.show(), d),
            MVal::Attribute(q, v) => format!("@{}={:?}", q.show(), v),
            MVal::Namespace(p, u) => format!("xmlns:{}={:?}", p, u),
        }
    }
}

/// Abstract tree without identities.
#[derive(Clone, Debug, PartialEq, Eq, Hash)]
pub enum ANode {
    Document(Vec<ANode>),
    Element(AElem),
    Text(String),
    Comment(String),
    PI(String, Option<String>),
    /// only as a free-standing node
    Attribute(QName, String),
    /// only as a free-standing node
    Namespace(String, String),
}

#[derive(Clone, Debug, PartialEq, Eq, Hash, Default)]
pub struct AElem {
    pub name: QName,
    pub decls: Vec<(String, String)>,
    pub attrs: Vec<(QName, String)>,
    pub children: Vec<ANode>,
}

impl Default for QName {
    fn default() -> Self {
        QName::new("", "e")
    }
}

impl ANode {
    pub fn children(&self) -> &[ANode] {
        match self {
            ANode::Document(c) => c,
            ANode::Element(e) => &e.children,
            _ => &[],
        }
    }
    pub fn children_mut(&mut self) -> Option<&mut Vec<ANode>> {
        match self {
            ANode::Document(c) => Some(c),
            ANode::Element(e) => Some(&mut e.children),
            _ => None,
        }
    }
    pub fn count(&self) -> usize {
        1 + match self {
            ANode::Element(e) => e.decls.len() + e.attrs.len(),
            _ => 0,
        } + self.children().iter().map(|c| c.count()).sum::<usize>()
    }
    pub fn count_ordinary(&self) -> usize {
        1 + self.children().iter().map(|c| c.count_ordinary()).sum::<usize>()
    }
    pub fn depth(&self) -> usize {
        1 + self.children().iter().map(|c| c.depth()).max().unwrap_or(0)
    }
    pub fn is_text(&self) -> bool {
        matches!(self, ANode::Text(_))
    }
    pub fn as_elem(&self) -> Option<&AElem> {
        match self {
            ANode::Element(e) => Some(e),
            _ => None,
        }
    }
    pub fn string_value(&self) -> String {
        match self {
            ANode::Document(_) | ANode::Element(_) => {
                let mut s = String::new();
                self.collect_text(&mut s);
                s
            }
            ANode::Text(t) => t.clone(),
            ANode::Comment(t) => t.clone(),
            ANode::PI(_, d) => d.clone().unwrap_or_default(),
            ANode::Attribute(_, v) => v.clone(),
            ANode::Namespace(_, u) => u.clone(),
        }
    }
    fn collect_text(&self, out: &mut String) {
        match self {
            ANode::Text(t) => out.push_str(t),
            ANode::Document(c) => c.iter().for_each(|c| c.collect_text(out)),
            ANode::Element(e) => e.children.iter().for_each(|c| c.collect_text(out)),
            _ => {}
        }
    }

    /// merge adjacent text children and drop empty text (what a consolidating
    /// store / a parser would hold)
    pub fn normalized(&self) -> ANode {
        fn norm_children(c: &[ANode]) -> Vec<ANode> {
            let mut out: Vec<ANode> = Vec::new();
            for ch in c {
                let n = ch.normalized();
                if let ANode::Text(t) = &n {
                    if t.is_empty() {
                        continue;
                    }
                    if let Some(ANode::Text(prev)) = out.last_mut() {
                        prev.push_str(t);
                        continue;
                    }
                }
                out.push(n);
            }
            out
        }
        match self {
            ANode::Document(c) => ANode::Document(norm_children(c)),
            ANode::Element(e) => ANode::Element(AElem {
                name: e.name.clone(),
                decls: e.decls.clone(),
                attrs: e.attrs.clone(),
                children: norm_children(&e.children),
            }),
            o => o.clone(),
        }
    }

    /// compact human-readable rendering (not XML: expanded names are shown)
    pub fn show(&self) -> String {
        let mut s = String::new();
        self.show_into(&mut s);
        s
    }
    fn show_into(&self, s: &mut String) {
        match self {
            ANode::Document(c) => {
                s.push_str("#doc[");
                for ch in c {
                    ch.show_into(s);
                }
                s.push(']');
            }
            ANode::Element(e) => {
                let _ = write!(s, "<{}", e.name.show());
                for (p, u) in &e.decls {
                    if p.is_empty() {
                        let _ = write!(s, " xmlns={:?}", u);
                    } else {
                        let _ = write!(s, " xmlns:{}={:?}", p, u);
                    }
                }
                for (q, v) in &e.attrs {
                    let _ = write!(s, " {}={:?}", q.show(), v);
                }
                s.push('>');
                for ch in &e.children {
                    ch.show_into(s);
                }
                let _ = write!(s, "</>");
            }
            ANode::Text(t) => {
                let _ = write!(s, "T{:?}", t);
            }
            ANode::Comment(t) => {
                let _ = write!(s, "<!--{:?}-->", t);
            }
            ANode::PI(t, d) => {
                let _ = write!(s, "<?{} {:?}?>", t, d);
            }
            ANode::Attribute(q, v) => {
                let _ = write!(s, "@{}={:?}", q.show(), v);
            }
            ANode::Namespace(p, u) => {
                let _ = write!(s, "xmlns:{}={:?}", p, u);
            }
        }
    }
}

/// Canonical form: no prefixes, no declarations, attribute *set*.
#[derive(Clone, Debug, PartialEq, Eq, Hash)]
pub enum Canon {
    Document(Vec<Canon>),
    Element(QName, Vec<(QName, String)>, Vec<Canon>),
    Text(String),
    Comment(String),
    PI(String, Option<String>),
    Attribute(QName, String),
    Namespace(String, String),
}

pub fn canon(n: &ANode) -> Canon {
    match n {
        ANode::Document(c) => Canon::Document(c.iter().map(canon).collect()),
        ANode::Element(e) => {
            let mut a = e.attrs.clone();
            a.sort();
            Canon::Element(e.name.clone(), a, e.children.iter().map(canon).collect())
        }
        ANode::Text(t) => Canon::Text(t.clone()),
        ANode::Comment(t) => Canon::Comment(t.clone()),
        ANode::PI(t, d) => Canon::PI(t.clone(), d.clone()),
        ANode::Attribute(q, v) => Canon::Attribute(q.clone(), v.clone()),
        ANode::Namespace(p, u) => Canon::Namespace(p.clone(), u.clone()),
    }
}
