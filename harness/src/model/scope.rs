//! Namespaces in XML 1.0 scoping, written from the recommendation:
//! nearest declaration of a prefix wins, `xmlns=""` removes the default
//! binding, `xml` is always bound, unprefixed attributes are in no namespace.

use std::collections::BTreeMap;

use super::adoc::XML_NS;

/// prefix -> uri; the default namespace is the entry for "" (absent = none)
pub type Scope = BTreeMap<String, String>;

pub fn base_scope() -> Scope {
    let mut s = Scope::new();
    s.insert("xml".to_string(), XML_NS.to_string());
    s
}

/// scope inside an element that carries `decls`, given its parent's scope
pub fn push(parent: &Scope, decls: &[(String, String)]) -> Scope {
    let mut s = parent.clone();
    for (p, u) in decls {
        if p.is_empty() && u.is_empty() {
            s.remove("");
        } else {
            s.insert(p.clone(), u.clone());
        }
    }
    s
}

/// namespace an element name written with `prefix` denotes (None = unbound prefix)
pub fn resolve_element(scope: &Scope, prefix: &str) -> Option<String> {
    if prefix.is_empty() {
        Some(scope.get("").cloned().unwrap_or_default())
    } else {
        scope.get(prefix).cloned()
    }
}

/// namespace an attribute name written with `prefix` denotes
pub fn resolve_attribute(scope: &Scope, prefix: &str) -> Option<String> {
    if prefix.is_empty() {
        Some(String::new())
    } else {
        scope.get(prefix).cloned()
    }
}

/// prefixes usable for an element in namespace `ns` (non-empty ns)
pub fn prefixes_for(scope: &Scope, ns: &str) -> Vec<String> {
    scope
        .iter()
        .filter(|(_, u)| u.as_str() == ns)
        .map(|(p, _)| p.clone())
        .collect()
}
