use std::path::Path;
use xvf::engine::{runner, Tier};

fn usage() -> ! {
    eprintln!("usage: xvf check <Cxx> [--tier quick|thorough]\n       xvf replay <Cxx> <file>\n       xvf list");
    std::process::exit(2);
}

fn main() {
    let args: Vec<String> = std::env::args().collect();
    if args.len() < 2 {
        usage();
    }
    runner::install_panic_hook();
    match args[1].as_str() {
        "list" => {
            for p in xvf::props::all() {
                println!("{}", p.id());
            }
        }
        "check" => {
            if args.len() < 3 {
                usage();
            }
            let id = &args[2];
            let mut tier = match std::env::var("VERIF_TIER").as_deref() {
                Ok("thorough") => Tier::Thorough,
                _ => Tier::Quick,
            };
            let mut i = 3;
            while i < args.len() {
                if args[i] == "--tier" && i + 1 < args.len() {
                    tier = match args[i + 1].as_str() {
                        "quick" => Tier::Quick,
                        "thorough" => Tier::Thorough,
                        _ => usage(),
                    };
                    i += 1;
                }
                i += 1;
            }
            let seed: u64 = std::env::var("VERIF_SEED")
                .ok()
                .and_then(|s| s.trim().parse::<i64>().ok().map(|v| v as u64))
                .unwrap_or(1);
            let prop = match xvf::props::by_id(id) {
                Some(p) => p,
                None => {
                    eprintln!("unknown property {}", id);
                    std::process::exit(2);
                }
            };
            let sigs = xvf::props::signatures(id);
            let code = runner::check(prop, tier, seed, &sigs);
            std::process::exit(code);
        }
        "fuzz-note" => {
            // xvf fuzz-note <Cxx> <plan> <execs> <corpus_files> <wall_s>: record a libFuzzer campaign in the evidence file
            if args.len() < 7 {
                usage();
            }
            let code = runner::fuzz_note(&args[2], &args[3], args[4].parse().unwrap_or(0), args[5].parse().unwrap_or(0), args[6].parse().unwrap_or(0.0));
            std::process::exit(code);
        }
        "replay" => {
            if args.len() < 4 {
                usage();
            }
            let prop = match xvf::props::by_id(&args[2]) {
                Some(p) => p,
                None => {
                    eprintln!("unknown property {}", args[2]);
                    std::process::exit(2);
                }
            };
            let code = runner::replay(prop, Path::new(&args[3]));
            std::process::exit(code);
        }
        _ => usage(),
    }
}
