//! Drivers: corpus replay, proptest shards, small-scope enumeration, shrinking,
//! replay files, evidence.

use std::cell::RefCell;
use std::collections::BTreeMap;
use std::panic::{catch_unwind, AssertUnwindSafe};
use std::path::{Path, PathBuf};
use std::sync::mpsc;
use std::time::{Duration, Instant};

use proptest::prelude::*;
use proptest::strategy::ValueTree;
use proptest::test_runner::{Config, RngAlgorithm, TestRng, TestRunner};

use super::findings::{root, Findings};
use super::src::{next_path, Src};
use super::{Ctx, Knobs, Plan, PlanKind, Property, Stats, Tier, Verdict};

pub const SHARDS: usize = 16;

thread_local! {
    static LAST_PANIC: RefCell<Option<String>> = RefCell::new(None);
}

pub fn install_panic_hook() {
    std::panic::set_hook(Box::new(|info| {
        let msg = if let Some(s) = info.payload().downcast_ref::<&str>() {
            s.to_string()
        } else if let Some(s) = info.payload().downcast_ref::<String>() {
            s.clone()
        } else {
            "<non-string panic>".to_string()
        };
        let loc = info
            .location()
            .map(|l| format!(" at {}:{}", l.file(), l.line()))
            .unwrap_or_default();
        LAST_PANIC.with(|p| *p.borrow_mut() = Some(format!("{}{}", msg, loc)));
    }));
}

pub fn take_panic() -> String {
    LAST_PANIC
        .with(|p| p.borrow_mut().take())
        .unwrap_or_else(|| "<panic>".to_string())
}

/// Run `f`, turning a panic into Err(message). The hook keeps stderr quiet.
pub fn guarded<T>(f: impl FnOnce() -> T) -> Result<T, String> {
    match catch_unwind(AssertUnwindSafe(f)) {
        Ok(v) => Ok(v),
        Err(_) => Err(take_panic()),
    }
}

pub enum Input<'a> {
    Bytes(&'a [u8]),
    Path(&'a [u16]),
}

pub struct CaseOut {
    pub verdict: Verdict,
    pub nontrivial: bool,
    pub fp: u64,
    pub labels: Vec<&'static str>,
    pub excluded: Vec<&'static str>,
    pub suspects: Vec<&'static str>,
    pub render: String,
    pub canonical: Vec<u8>,
    pub trace: Vec<super::src::Step>,
    pub starved: usize,
}

pub fn run_case(
    prop: &dyn Property,
    input: Input,
    knobs: Knobs,
    known: &[String],
    want_render: bool,
    no_exclusion: bool,
) -> CaseOut {
    let mut src = match input {
        Input::Bytes(b) => Src::from_bytes(b),
        Input::Path(p) => Src::from_path(p),
    };
    let mut ctx = Ctx::new(knobs, known);
    ctx.want_render = want_render;
    ctx.no_exclusion = no_exclusion;
    let r = catch_unwind(AssertUnwindSafe(|| prop.check(&mut src, &mut ctx)));
    let verdict = match r {
        Ok(v) => v,
        Err(_) => Verdict::Fail(format!("panic escaped the check: {}", take_panic())),
    };
    if ctx.fp == 0 {
        ctx.fp = super::fnv_hash(&src.canonical_bytes());
    }
    CaseOut {
        verdict,
        nontrivial: ctx.nontrivial,
        fp: ctx.fp,
        labels: ctx.labels,
        excluded: ctx.excluded,
        suspects: ctx.suspects,
        render: ctx.render,
        canonical: src.canonical_bytes(),
        trace: src.trace,
        starved: src.starved,
    }
}

fn account(stats: &mut Stats, out: &CaseOut) {
    stats.cases += 1;
    if out.starved > 0 {
        stats.starved_cases += 1;
    }
    for l in &out.labels {
        *stats.labels.entry(l).or_default() += 1;
    }
    for e in &out.excluded {
        *stats.excluded.entry(e).or_default() += 1;
    }
    if let Verdict::Known { sig, .. } = &out.verdict {
        *stats.known_verdicts.entry(sig).or_default() += 1;
    }
    if out.nontrivial {
        stats.nontrivial += 1;
        stats.fps.insert(out.fp);
    }
}

#[derive(Debug, Clone)]
pub struct Failure {
    pub plan: &'static str,
    pub bytes: Vec<u8>,
    pub message: String,
    pub suspects: Vec<&'static str>,
    pub shard: usize,
    pub index: u64,
}

fn splitmix(x: &mut u64) -> u64 {
    *x = x.wrapping_add(0x9E3779B97F4A7C15);
    let mut z = *x;
    z = (z ^ (z >> 30)).wrapping_mul(0xBF58476D1CE4E5B9);
    z = (z ^ (z >> 27)).wrapping_mul(0x94D049BB133111EB);
    z ^ (z >> 31)
}

fn shard_seed(seed: u64, prop: &str, plan: &str, shard: usize) -> [u8; 32] {
    let mut x = seed
        ^ super::fnv_hash(&prop).rotate_left(17)
        ^ super::fnv_hash(&plan).rotate_left(41)
        ^ ((shard as u64) << 56);
    let mut out = [0u8; 32];
    for i in 0..4 {
        let v = splitmix(&mut x);
        out[i * 8..i * 8 + 8].copy_from_slice(&v.to_le_bytes());
    }
    out
}

fn byte_strategy() -> impl Strategy<Value = u8> {
    // biased towards the "simple" end; full range still dominant
    prop_oneof![
        6 => any::<u8>(),
        2 => 0u8..16,
        1 => Just(0u8),
        1 => Just(255u8),
    ]
}

fn is_fail(v: &Verdict, known: &[String]) -> Option<String> {
    match v {
        Verdict::Pass => None,
        Verdict::Known { sig, detail } => {
            if known.iter().any(|k| k == sig) {
                None
            } else {
                Some(format!(
                    "[signature {} — not listed as a known finding] {}",
                    sig, detail
                ))
            }
        }
        Verdict::Fail(m) => Some(m.clone()),
    }
}

struct ShardOut {
    stats: Stats,
    failure: Option<Failure>,
}

fn run_random_shard(
    prop: &dyn Property,
    plan: &Plan,
    cases: usize,
    max_len: usize,
    seed: u64,
    shard: usize,
    known: &[String],
) -> ShardOut {
    let rng = TestRng::from_seed(
        RngAlgorithm::ChaCha,
        &shard_seed(seed, prop.id(), plan.name, shard),
    );
    let mut cfg = Config::default();
    cfg.failure_persistence = None;
    let mut runner = TestRunner::new_with_rng(cfg, rng);
    // length classes: short cases are cheap and shrink well; long ones reach depth
    let strat = prop_oneof![
        1 => proptest::collection::vec(byte_strategy(), 0..=(max_len / 8).max(4)),
        2 => proptest::collection::vec(byte_strategy(), 0..=(max_len / 2).max(8)),
        3 => proptest::collection::vec(byte_strategy(), 0..=max_len),
    ];
    let mut stats = Stats::default();
    for i in 0..cases {
        let mut tree = match strat.new_tree(&mut runner) {
            Ok(t) => t,
            Err(_) => continue,
        };
        let bytes = tree.current();
        let want_render = stats.samples.len() < 2;
        let out = run_case(prop, Input::Bytes(&bytes), plan.knobs, known, want_render, false);
        account(&mut stats, &out);
        if want_render && out.nontrivial && !out.render.is_empty() {
            stats.samples.push(format!("[{}] {}", plan.name, out.render));
        }
        if let Some(msg) = is_fail(&out.verdict, known) {
            // shrink with proptest's value tree
            let mut best = bytes.clone();
            let mut best_msg = msg;
            let mut best_suspects = out.suspects.clone();
            let mut iters = 0;
            if tree.simplify() {
                loop {
                    iters += 1;
                    if iters > 3000 {
                        break;
                    }
                    let cur = tree.current();
                    let o = run_case(prop, Input::Bytes(&cur), plan.knobs, known, false, false);
                    if let Some(m) = is_fail(&o.verdict, known) {
                        best = cur;
                        best_msg = m;
                        best_suspects = o.suspects;
                        if !tree.simplify() {
                            break;
                        }
                    } else if !tree.complicate() {
                        break;
                    }
                }
            }
            let (b, m, s) = minimise(prop, plan.knobs, known, best, best_msg, best_suspects);
            return ShardOut {
                stats,
                failure: Some(Failure {
                    plan: plan.name,
                    bytes: b,
                    message: m,
                    suspects: s,
                    shard,
                    index: i as u64,
                }),
            };
        }
    }
    ShardOut {
        stats,
        failure: None,
    }
}

/// byte-level delta debugging on top of proptest's shrink (also used for
/// enumerated and fuzzer-found cases)
pub fn minimise(
    prop: &dyn Property,
    knobs: Knobs,
    known: &[String],
    mut best: Vec<u8>,
    mut msg: String,
    mut suspects: Vec<&'static str>,
) -> (Vec<u8>, String, Vec<&'static str>) {
    let mut budget = 4000usize;
    let mut try_candidate = |cand: Vec<u8>,
                             best: &mut Vec<u8>,
                             msg: &mut String,
                             suspects: &mut Vec<&'static str>,
                             budget: &mut usize|
     -> bool {
        if *budget == 0 {
            return false;
        }
        *budget -= 1;
        let o = run_case(prop, Input::Bytes(&cand), knobs, known, false, false);
        if let Some(m) = is_fail(&o.verdict, known) {
            *best = cand;
            *msg = m;
            *suspects = o.suspects;
            true
        } else {
            false
        }
    };
    // canonicalise first: replace by canonical bytes of the decisions actually taken
    {
        let o = run_case(prop, Input::Bytes(&best), knobs, known, false, false);
        let cand = o.canonical.clone();
        if cand != best {
            try_candidate(cand, &mut best, &mut msg, &mut suspects, &mut budget);
        }
    }
    let mut progress = true;
    while progress && budget > 0 {
        progress = false;
        // drop the tail
        while !best.is_empty() && budget > 0 {
            let mut c = best.clone();
            c.pop();
            if !try_candidate(c, &mut best, &mut msg, &mut suspects, &mut budget) {
                break;
            }
            progress = true;
        }
        // delete chunks
        let mut size = (best.len() / 2).max(1);
        while size >= 1 && budget > 0 {
            let mut i = 0;
            while i + size <= best.len() && budget > 0 {
                let mut c = best.clone();
                c.drain(i..i + size);
                if try_candidate(c, &mut best, &mut msg, &mut suspects, &mut budget) {
                    progress = true;
                } else {
                    i += size;
                }
            }
            if size == 1 {
                break;
            }
            size /= 2;
        }
        // lower bytes
        for i in 0..best.len() {
            if budget == 0 {
                break;
            }
            if best[i] == 0 {
                continue;
            }
            let mut c = best.clone();
            c[i] = 0;
            if try_candidate(c, &mut best, &mut msg, &mut suspects, &mut budget) {
                progress = true;
                continue;
            }
            let mut c = best.clone();
            c[i] /= 2;
            if try_candidate(c, &mut best, &mut msg, &mut suspects, &mut budget) {
                progress = true;
            }
        }
    }
    (best, msg, suspects)
}

fn run_enumeration(
    prop: &dyn Property,
    plan: &Plan,
    limit: usize,
    known: &[String],
) -> (Stats, Option<Failure>, bool) {
    // The decision tree is split at the root among worker threads: each worker
    // owns the subtrees whose first-decision index is congruent to its number.
    // First discover the arity of the first decision.
    let probe = run_case(prop, Input::Path(&[]), plan.knobs, known, false, false);
    let first_arity = probe.trace.first().map(|s| s.arity as usize).unwrap_or(1);
    let workers = SHARDS.min(first_arity.max(1));
    let per_worker_limit = (limit + workers - 1) / workers;
    let mut outs: Vec<(Stats, Option<Failure>, bool)> = Vec::new();
    std::thread::scope(|scope| {
        let mut handles = vec![];
        for w in 0..workers {
            handles.push(scope.spawn(move || {
                let mut stats = Stats::default();
                let mut complete = true;
                let mut first = w;
                'outer: while first < first_arity {
                    let mut path: Vec<u16> = if first_arity > 1 {
                        vec![first as u16]
                    } else {
                        vec![]
                    };
                    loop {
                        if stats.cases as usize >= per_worker_limit {
                            complete = false;
                            break 'outer;
                        }
                        let want_render = stats.samples.len() < 1 && w == 0;
                        let out = run_case(
                            prop,
                            Input::Path(&path),
                            plan.knobs,
                            known,
                            want_render,
                            false,
                        );
                        account(&mut stats, &out);
                        if want_render && out.nontrivial && !out.render.is_empty() {
                            stats.samples.push(format!("[{}] {}", plan.name, out.render));
                        }
                        if let Some(msg) = is_fail(&out.verdict, known) {
                            let (b, m, s) = minimise(
                                prop,
                                plan.knobs,
                                known,
                                out.canonical.clone(),
                                msg,
                                out.suspects.clone(),
                            );
                            return (
                                stats,
                                Some(Failure {
                                    plan: plan.name,
                                    bytes: b,
                                    message: m,
                                    suspects: s,
                                    shard: w,
                                    index: 0,
                                }),
                                false,
                            );
                        }
                        match next_path(&out.trace) {
                            Some(p) => {
                                if first_arity > 1 && p.first().copied() != Some(first as u16) {
                                    break;
                                }
                                if p.is_empty() {
                                    break;
                                }
                                path = p;
                            }
                            None => break,
                        }
                    }
                    first += workers;
                }
                (stats, None, complete)
            }));
        }
        for h in handles {
            outs.push(h.join().unwrap_or_else(|_| {
                (
                    Stats::default(),
                    Some(Failure {
                        plan: plan.name,
                        bytes: vec![],
                        message: "enumeration worker panicked".into(),
                        suspects: vec![],
                        shard: 0,
                        index: 0,
                    }),
                    false,
                )
            }));
        }
    });
    let mut stats = Stats::default();
    let mut failure = None;
    let mut complete = true;
    for (s, f, c) in outs {
        stats.merge(s);
        if failure.is_none() {
            failure = f;
        }
        complete &= c;
    }
    (stats, failure, complete)
}

// ---------------------------------------------------------------- case files

pub struct CaseFile {
    pub property: String,
    pub plan: String,
    pub bytes: Vec<u8>,
    /// the rendering of the decoded case at the time the file was written ("# case: ..." comment)
    pub rendering: Option<String>,
}

pub fn write_case_file(path: &Path, property: &str, plan: &str, bytes: &[u8], note: &str) {
    let mut s = String::new();
    s.push_str("xvf-case 1\n");
    s.push_str(&format!("property={}\n", property));
    s.push_str(&format!("plan={}\n", plan));
    let hex: String = bytes.iter().map(|b| format!("{:02x}", b)).collect();
    s.push_str(&format!("hex={}\n", hex));
    for l in note.lines() {
        s.push_str("# ");
        s.push_str(l);
        s.push('\n');
    }
    if let Some(p) = path.parent() {
        let _ = std::fs::create_dir_all(p);
    }
    std::fs::write(path, s).expect("write case file");
}

pub fn read_case_file(path: &Path) -> Result<CaseFile, String> {
    let text = std::fs::read_to_string(path).map_err(|e| format!("{}: {}", path.display(), e))?;
    let mut property = String::new();
    let mut plan = String::new();
    let mut bytes = vec![];
    let mut rendering = None;
    for line in text.lines() {
        if let Some(v) = line.strip_prefix("# case: ") {
            if !v.trim().is_empty() {
                rendering = Some(v.trim().to_string());
            }
        } else if let Some(v) = line.strip_prefix("property=") {
            property = v.trim().to_string();
        } else if let Some(v) = line.strip_prefix("plan=") {
            plan = v.trim().to_string();
        } else if let Some(v) = line.strip_prefix("hex=") {
            let v = v.trim();
            if v.len() % 2 != 0 {
                return Err(format!("{}: odd hex length", path.display()));
            }
            for i in (0..v.len()).step_by(2) {
                bytes.push(
                    u8::from_str_radix(&v[i..i + 2], 16)
                        .map_err(|_| format!("{}: bad hex", path.display()))?,
                );
            }
        }
    }
    if property.is_empty() || plan.is_empty() {
        return Err(format!("{}: missing property= or plan=", path.display()));
    }
    Ok(CaseFile {
        property,
        plan,
        bytes,
        rendering,
    })
}

pub fn find_plan(prop: &dyn Property, name: &str) -> Option<Plan> {
    for t in [Tier::Quick, Tier::Thorough] {
        for p in prop.plans(t) {
            if p.name == name {
                return Some(p);
            }
        }
    }
    None
}

fn corpus_files(dir: &Path) -> Vec<PathBuf> {
    let mut v = vec![];
    if let Ok(rd) = std::fs::read_dir(dir) {
        for e in rd.flatten() {
            let p = e.path();
            if p.extension().map(|x| x == "case").unwrap_or(false) {
                v.push(p);
            }
        }
    }
    v.sort();
    v
}

// ---------------------------------------------------------------- check / replay

pub struct CheckResult {
    pub exit: i32,
}

pub fn replay(prop: &dyn Property, file: &Path) -> i32 {
    let findings = match Findings::load() {
        Ok(f) => f,
        Err(e) => {
            println!("INCONCLUSIVE {}", e);
            return 2;
        }
    };
    let known = findings.sigs_for(prop.id());
    let cf = match read_case_file(file) {
        Ok(c) => c,
        Err(e) => {
            println!("INCONCLUSIVE {}", e);
            return 2;
        }
    };
    if cf.property != prop.id() {
        println!(
            "INCONCLUSIVE case file is for {} not {}",
            cf.property,
            prop.id()
        );
        return 2;
    }
    let plan = match find_plan(prop, &cf.plan) {
        Some(p) => p,
        None => {
            println!("INCONCLUSIVE unknown plan {}", cf.plan);
            return 2;
        }
    };
    let out = run_case(prop, Input::Bytes(&cf.bytes), plan.knobs, &known, true, false);
    println!("case: {}", out.render);
    match is_fail(&out.verdict, &known) {
        Some(m) => {
            println!("failure: {}", m);
            if !out.suspects.is_empty() {
                println!("matching signatures: {:?}", out.suspects);
            }
            println!(
                "VIOLATION property={} replay={}",
                prop.id(),
                file.display()
            );
            1
        }
        None => {
            println!("verdict: {:?}", out.verdict);
            0
        }
    }
}

pub fn check(prop: &'static dyn Property, tier: Tier, seed: u64, signatures: &[&str]) -> i32 {
    let started = Instant::now();
    let findings = match Findings::load() {
        Ok(f) => f,
        Err(e) => {
            println!("INCONCLUSIVE {}", e);
            return 2;
        }
    };
    for k in findings.known.iter().filter(|k| k.property == prop.id()) {
        if !signatures.iter().any(|s| *s == k.sig) {
            println!(
                "INCONCLUSIVE known_findings.txt names signature {} which the harness does not define for {}",
                k.sig,
                prop.id()
            );
            return 2;
        }
    }
    let known = findings.sigs_for(prop.id());

    // watchdog: the whole check runs in a worker; the main thread only waits
    let budget = match tier {
        Tier::Quick => Duration::from_secs(25 * 60),
        Tier::Thorough => Duration::from_secs(4 * 3600),
    };
    let (tx, rx) = mpsc::channel();
    let known2 = known.clone();
    let findings2 = findings.clone();
    std::thread::Builder::new()
        .stack_size(256 << 20)
        .spawn(move || {
            let r = check_inner(prop, tier, seed, &known2, &findings2, started);
            let _ = tx.send(r);
        })
        .expect("spawn");
    match rx.recv_timeout(budget) {
        Ok(code) => code,
        Err(_) => {
            println!(
                "INCONCLUSIVE property={} watchdog: no result within {:?}",
                prop.id(),
                budget
            );
            2
        }
    }
}

fn check_inner(
    prop: &'static dyn Property,
    tier: Tier,
    seed: u64,
    known: &[String],
    findings: &Findings,
    started: Instant,
) -> i32 {
    let id = prop.id();
    let root = root();
    let mut total = Stats::default();
    let mut plan_reports: Vec<serde_json::Value> = vec![];
    let mut failure: Option<(Failure, PathBuf)> = None;
    let mut known_lines: Vec<String> = vec![];
    let mut all_exhaustive = true;

    // 1. known findings: confirm each witness still fails with its signature
    for k in findings.known.iter().filter(|k| k.property == id) {
        let mut status = "listed";
        if let Some(w) = &k.witness {
            match read_case_file(w) {
                Ok(cf) => {
                    if let Some(plan) = find_plan(prop, &cf.plan) {
                        let out =
                            run_case(prop, Input::Bytes(&cf.bytes), plan.knobs, known, false, true);
                        let fails = !matches!(out.verdict, Verdict::Pass);
                        let sig_match = out.suspects.iter().any(|s| *s == k.sig)
                            || matches!(&out.verdict, Verdict::Known{sig,..} if *sig == k.sig);
                        status = if fails && sig_match {
                            "witness reproduces"
                        } else if fails {
                            "witness fails with another signature"
                        } else {
                            "witness no longer fails"
                        };
                    } else {
                        status = "witness plan unknown";
                    }
                }
                Err(_) => status = "witness unreadable",
            }
        }
        let line = format!(
            "KNOWN-FINDING: property={} sig={} {} [{}]",
            id, k.sig, k.text, status
        );
        println!("{}", line);
        known_lines.push(line);
    }

    // 2. corpus replay (strict: every saved regression input must pass)
    let corpus_dir = root.join("corpus").join(id);
    // XVF_NO_CORPUS=1 (sensitivity self-tests only): skip the saved witnesses so that the
    // generated search alone has to find a defect again
    let files = if std::env::var("XVF_NO_CORPUS").is_ok() { vec![] } else { corpus_files(&corpus_dir) };
    let mut corpus_replayed = 0u64;
    // saved cases store decisions, not inputs: a generator change in front of them changes what
    // they denote. Cases whose decoded rendering differs from the one recorded in the file are
    // listed in the evidence (they are still replayed and must pass).
    let mut corpus_drifted: Vec<String> = vec![];
    for f in &files {
        let cf = match read_case_file(f) {
            Ok(c) => c,
            Err(e) => {
                println!("INCONCLUSIVE {}", e);
                return 2;
            }
        };
        let plan = match find_plan(prop, &cf.plan) {
            Some(p) => p,
            None => {
                println!("INCONCLUSIVE {}: unknown plan {}", f.display(), cf.plan);
                return 2;
            }
        };
        let out = run_case(prop, Input::Bytes(&cf.bytes), plan.knobs, known, false, false);
        corpus_replayed += 1;
        if let Some(saved) = &cf.rendering {
            let now = out.render.lines().next().unwrap_or("").trim().to_string();
            if !now.is_empty() && now != *saved {
                corpus_drifted.push(f.file_name().map(|n| n.to_string_lossy().to_string()).unwrap_or_default());
            }
        }
        account(&mut total, &out);
        if let Some(m) = is_fail(&out.verdict, known) {
            failure = Some((
                Failure {
                    plan: plan.name,
                    bytes: cf.bytes.clone(),
                    message: format!("regression corpus case fails: {}", m),
                    suspects: out.suspects,
                    shard: 0,
                    index: 0,
                },
                f.clone(),
            ));
            break;
        }
    }

    // 3. plans
    if failure.is_none() {
        for plan in prop.plans(tier) {
            let t0 = Instant::now();
            let (stats, fail, exhaustive) = match plan.kind {
                PlanKind::Random { cases, max_len } => {
                    let per = (cases + SHARDS - 1) / SHARDS;
                    let mut outs: Vec<ShardOut> = Vec::new();
                    std::thread::scope(|scope| {
                        let mut hs = vec![];
                        for shard in 0..SHARDS {
                            let plan = plan;
                            hs.push(scope.spawn(move || {
                                run_random_shard(prop, &plan, per, max_len, seed, shard, known)
                            }));
                        }
                        for h in hs {
                            outs.push(h.join().unwrap_or_else(|_| ShardOut {
                                stats: Stats::default(),
                                failure: Some(Failure {
                                    plan: plan.name,
                                    bytes: vec![],
                                    message: "shard thread panicked".into(),
                                    suspects: vec![],
                                    shard: 0,
                                    index: 0,
                                }),
                            }));
                        }
                    });
                    let mut st = Stats::default();
                    let mut fl = None;
                    for o in outs {
                        st.merge(o.stats);
                        if fl.is_none() {
                            fl = o.failure;
                        }
                    }
                    (st, fl, false)
                }
                PlanKind::Enumerate { limit } => run_enumeration(prop, &plan, limit, known),
            };
            all_exhaustive &= exhaustive;
            plan_reports.push(serde_json::json!({
                "plan": plan.name,
                "kind": match plan.kind { PlanKind::Random{..} => "proptest-random", PlanKind::Enumerate{..} => "small-scope-enumeration" },
                "cases": stats.cases,
                "nontrivial": stats.nontrivial,
                "distinct_nontrivial": stats.fps.len(),
                "exhaustive": exhaustive,
                "knobs": format!("{:?}", plan.knobs),
                "wall_s": t0.elapsed().as_secs_f64(),
            }));
            total.merge(stats);
            if let Some(f) = fail {
                let h = super::fnv_hash(&f.bytes);
                let path = root
                    .join("evidence")
                    .join("replays")
                    .join(format!("{}-{:016x}.case", id, h));
                // render the minimal case for the note
                let out = run_case(prop, Input::Bytes(&f.bytes), plan.knobs, known, true, false);
                let note = format!(
                    "failure: {}\nmatching signatures: {:?}\ncase: {}",
                    f.message, f.suspects, out.render
                );
                write_case_file(&path, id, f.plan, &f.bytes, &note);
                failure = Some((f, path));
                break;
            }
        }
    }

    // 4. evidence
    let wall = started.elapsed().as_secs_f64();
    let labels: BTreeMap<String, u64> = total
        .labels
        .iter()
        .map(|(k, v)| (k.to_string(), *v))
        .collect();
    let excluded: BTreeMap<String, u64> = total
        .excluded
        .iter()
        .map(|(k, v)| (k.to_string(), *v))
        .collect();
    let known_verdicts: BTreeMap<String, u64> = total
        .known_verdicts
        .iter()
        .map(|(k, v)| (k.to_string(), *v))
        .collect();
    let mut samples: Vec<serde_json::Value> = total
        .samples
        .iter()
        .map(|s| serde_json::Value::String(s.clone()))
        .collect();
    if samples.is_empty() {
        samples.push(serde_json::Value::String(
            "(no non-trivial sample rendered)".into(),
        ));
    }
    let mut coverage = serde_json::json!({
        "evaluations": total.cases,
        "distinct_nontrivial": total.fps.len(),
        "nontrivial_cases": total.nontrivial,
        "rule": prop.rule(),
        "samples": samples,
        "labels": labels,
        "plans": plan_reports,
        "corpus_replayed": corpus_replayed,
        "corpus_drifted": corpus_drifted,
        "excluded_by_finding": excluded,
        "cases_ending_in_known_finding": known_verdicts,
        "known_findings": known_lines,
        "cases_with_exhausted_input": total.starved_cases,
    });
    if all_exhaustive && failure.is_none() && !prop.plans(tier).is_empty() {
        coverage["exhaustive"] = serde_json::Value::Bool(true);
    }
    if let Some((f, p)) = &failure {
        coverage["violation"] = serde_json::json!({
            "plan": f.plan, "message": f.message, "replay": p.display().to_string(),
            "matching_signatures": f.suspects,
        });
    }
    let ev = serde_json::json!({
        "property_id": id,
        "tier": tier.name(),
        "seed": seed,
        "level": "exploration",
        "coverage": coverage,
        "assumptions": prop.assumptions(),
        "wall_s": wall,
        "violations": if failure.is_some() { 1 } else { 0 },
    });
    let evdir = root.join("evidence");
    let _ = std::fs::create_dir_all(&evdir);
    let evpath = evdir.join(format!("{}.json", id));
    std::fs::write(&evpath, serde_json::to_string_pretty(&ev).unwrap()).expect("write evidence");

    println!(
        "property={} tier={} seed={} cases={} nontrivial={} distinct_nontrivial={} wall={:.1}s",
        id,
        tier.name(),
        seed,
        total.cases,
        total.nontrivial,
        total.fps.len(),
        wall
    );
    if let Some((f, p)) = failure {
        println!("failure: {}", f.message);
        if !f.suspects.is_empty() {
            println!("matching signatures: {:?}", f.suspects);
        }
        println!("VIOLATION property={} replay={}", id, p.display());
        1
    } else {
        0
    }
}


/// Append the statistics of a libFuzzer campaign (same decoder, same oracle) to the evidence file.
pub fn fuzz_note(id: &str, plan: &str, execs: u64, corpus_files: u64, wall_s: f64) -> i32 {
    let path = root().join("evidence").join(format!("{}.json", id));
    let text = match std::fs::read_to_string(&path) {
        Ok(t) => t,
        Err(_) => return 2,
    };
    let mut v: serde_json::Value = match serde_json::from_str(&text) {
        Ok(v) => v,
        Err(_) => return 2,
    };
    let entry = serde_json::json!({
        "engine": "libFuzzer (cargo-fuzz), coverage-guided mutation of the same case bytes through the same decoder and oracle",
        "plan": plan, "executions": execs, "corpus_files_after": corpus_files, "wall_s": wall_s,
    });
    let cov = &mut v["coverage"];
    if !cov["libfuzzer"].is_array() {
        cov["libfuzzer"] = serde_json::json!([]);
    }
    cov["libfuzzer"].as_array_mut().unwrap().push(entry);
    if let Some(w) = v["wall_s"].as_f64() {
        v["wall_s"] = serde_json::json!(w + wall_s);
    }
    match std::fs::write(&path, serde_json::to_string_pretty(&v).unwrap()) {
        Ok(()) => 0,
        Err(_) => 2,
    }
}
