//! Choice source shared by every driver (proptest bytes, libFuzzer bytes,
//! small-scope path enumeration, replay).
//!
//! Every decision a decoder makes is one call to `choice(n)` / `weighted(w)`.
//! * Bytes mode: the next byte `b` (0 when exhausted) is mapped *monotonically*
//!   onto the options (`b*n >> 8`), so lowering a byte never jumps to an
//!   unrelated option and byte 0 always means "the simplest option".
//! * Path mode: the decision comes from an explicit path of option indices
//!   (missing entries = option 0). The enumerator walks all paths odometer
//!   style. Every decision records the canonical byte that would reproduce it,
//!   so any enumerated case can be written out as ordinary case bytes.

#[derive(Clone, Copy, Debug)]
pub struct Step {
    pub arity: u16,
    pub value: u16,
    pub byte: u8,
}

enum Mode<'a> {
    Bytes { data: &'a [u8], pos: usize },
    Path { path: &'a [u16], pos: usize },
}

pub struct Src<'a> {
    mode: Mode<'a>,
    pub trace: Vec<Step>,
    /// number of decisions that found the input exhausted
    pub starved: usize,
}

impl<'a> Src<'a> {
    pub fn from_bytes(data: &'a [u8]) -> Self {
        Src {
            mode: Mode::Bytes { data, pos: 0 },
            trace: Vec::new(),
            starved: 0,
        }
    }

    pub fn from_path(path: &'a [u16]) -> Self {
        Src {
            mode: Mode::Path { path, pos: 0 },
            trace: Vec::new(),
            starved: 0,
        }
    }

    /// bytes mode: no input left (decoders end open-ended loops here instead of
    /// padding the case with zero decisions); path mode: never
    pub fn exhausted(&self) -> bool {
        match &self.mode {
            Mode::Bytes { data, pos } => *pos >= data.len(),
            Mode::Path { .. } => false,
        }
    }

    pub fn is_path(&self) -> bool {
        matches!(self.mode, Mode::Path { .. })
    }

    fn next_byte(&mut self) -> u8 {
        match &mut self.mode {
            Mode::Bytes { data, pos } => {
                if *pos < data.len() {
                    let b = data[*pos];
                    *pos += 1;
                    b
                } else {
                    self.starved += 1;
                    0
                }
            }
            Mode::Path { .. } => unreachable!(),
        }
    }

    /// Uniform choice among `n` options, 1 <= n <= 256.
    pub fn choice(&mut self, n: usize) -> usize {
        assert!(n >= 1 && n <= 256, "choice arity {}", n);
        if n == 1 {
            return 0;
        }
        match &mut self.mode {
            Mode::Bytes { .. } => {
                let b = self.next_byte();
                let v = (b as usize * n) >> 8;
                self.trace.push(Step {
                    arity: n as u16,
                    value: v as u16,
                    byte: b,
                });
                v
            }
            Mode::Path { path, pos } => {
                let v = if *pos < path.len() {
                    (path[*pos] as usize).min(n - 1)
                } else {
                    self.starved += 1;
                    0
                };
                *pos += 1;
                let byte = ((v * 256 + n - 1) / n) as u8;
                self.trace.push(Step {
                    arity: n as u16,
                    value: v as u16,
                    byte,
                });
                v
            }
        }
    }

    /// Weighted choice; weights are relative, option 0 is the simplest.
    pub fn weighted(&mut self, weights: &[u32]) -> usize {
        let n = weights.len();
        assert!(n >= 1 && n <= 256);
        if n == 1 {
            return 0;
        }
        let total: u32 = weights.iter().sum();
        assert!(total > 0);
        // option i owns bytes [lo_i, hi_i) with lo_i = ceil(256*cum_i/total)
        let lo = |i: usize| -> usize {
            let cum: u32 = weights[..i].iter().sum();
            ((cum as usize) * 256 + total as usize - 1) / total as usize
        };
        match &mut self.mode {
            Mode::Bytes { .. } => {
                let b = self.next_byte() as usize;
                let mut v = 0;
                for i in 0..n {
                    if weights[i] == 0 {
                        continue;
                    }
                    if lo(i) <= b {
                        v = i;
                    } else {
                        break;
                    }
                }
                // make sure option has non-zero weight
                if weights[v] == 0 {
                    v = weights.iter().position(|w| *w > 0).unwrap();
                }
                self.trace.push(Step {
                    arity: n as u16,
                    value: v as u16,
                    byte: b as u8,
                });
                v
            }
            Mode::Path { path, pos } => {
                // enumerate only options with non-zero weight
                let live: Vec<usize> = (0..n).filter(|i| weights[*i] > 0).collect();
                let k = if *pos < path.len() {
                    (path[*pos] as usize).min(live.len() - 1)
                } else {
                    self.starved += 1;
                    0
                };
                *pos += 1;
                let v = live[k];
                let byte = lo(v).min(255) as u8;
                self.trace.push(Step {
                    arity: live.len() as u16,
                    value: k as u16,
                    byte,
                });
                v
            }
        }
    }

    pub fn bool(&mut self) -> bool {
        self.choice(2) == 1
    }

    /// true with probability ~ num/den (option "false" is the simple one)
    pub fn ratio(&mut self, num: u32, den: u32) -> bool {
        self.weighted(&[den - num, num]) == 1
    }

    /// choice among up to 65536 options (two decisions)
    pub fn choice_big(&mut self, n: usize) -> usize {
        assert!(n >= 1);
        if n <= 256 {
            return self.choice(n);
        }
        let hi_n = (n + 255) / 256;
        let hi = self.choice(hi_n.min(256));
        let lo = self.choice(256);
        (hi * 256 + lo).min(n - 1)
    }

    pub fn pick<'b, T>(&mut self, items: &'b [T]) -> &'b T {
        &items[self.choice_big(items.len())]
    }

    pub fn u8(&mut self) -> u8 {
        self.choice(256) as u8
    }

    /// integer in lo..=hi (hi-lo < 256)
    pub fn range(&mut self, lo: usize, hi: usize) -> usize {
        lo + self.choice(hi - lo + 1)
    }

    /// the canonical byte string reproducing the decisions taken so far
    pub fn canonical_bytes(&self) -> Vec<u8> {
        self.trace.iter().map(|s| s.byte).collect()
    }

    /// Remaining undecoded bytes (bytes mode only) – used by byte-level fuzz targets.
    pub fn rest(&mut self) -> &'a [u8] {
        match &mut self.mode {
            Mode::Bytes { data, pos } => {
                let r = &data[*pos..];
                *pos = data.len();
                r
            }
            Mode::Path { .. } => &[],
        }
    }
}

/// Next path in odometer order given the trace of the run of the previous path,
/// or None when the decision tree is exhausted.
pub fn next_path(trace: &[Step]) -> Option<Vec<u16>> {
    let mut i = trace.len();
    while i > 0 {
        i -= 1;
        if trace[i].value + 1 < trace[i].arity {
            let mut p: Vec<u16> = trace[..i].iter().map(|s| s.value).collect();
            p.push(trace[i].value + 1);
            return Some(p);
        }
    }
    None
}

#[cfg(test)]
mod tests {
    use super::*;

    #[test]
    fn canonical_roundtrip() {
        for n in 2..=256usize {
            for v in 0..n {
                let p = [v as u16];
                let mut s = Src::from_path(&p);
                assert_eq!(s.choice(n), v);
                let b = s.canonical_bytes();
                let mut s2 = Src::from_bytes(&b);
                assert_eq!(s2.choice(n), v, "n={} v={}", n, v);
            }
        }
        let w = [5u32, 0, 1, 10, 3];
        for k in 0..4u16 {
            let p = [k];
            let mut s = Src::from_path(&p);
            let v = s.weighted(&w);
            let b = s.canonical_bytes();
            let mut s2 = Src::from_bytes(&b);
            assert_eq!(s2.weighted(&w), v);
        }
    }

    #[test]
    fn enumerate_all() {
        let mut path: Vec<u16> = vec![];
        let mut seen = vec![];
        loop {
            let mut s = Src::from_path(&path);
            let a = s.choice(3);
            let b = if a == 1 { s.choice(2) } else { 0 };
            seen.push((a, b));
            match next_path(&s.trace) {
                Some(p) => path = p,
                None => break,
            }
        }
        assert_eq!(seen, vec![(0, 0), (1, 0), (1, 1), (2, 0)]);
    }
}
