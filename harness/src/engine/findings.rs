//! Reader for /verif/known_findings.txt (read-only at run time).
//!
//! ```text
//! known: property=C10 sig=noNsElementUnderDefaultNs witness=corpus/C10/known/x.case <what fails>
//! fixed: property=C05 <commit> <what failed>
//! ```

use std::path::{Path, PathBuf};

#[derive(Debug, Clone)]
pub struct Known {
    pub property: String,
    pub sig: String,
    pub witness: Option<PathBuf>,
    pub text: String,
}

#[derive(Debug, Clone, Default)]
pub struct Findings {
    pub known: Vec<Known>,
    pub fixed: Vec<(String, String)>,
}

pub fn root() -> PathBuf {
    std::env::var("XVF_ROOT")
        .map(PathBuf::from)
        .unwrap_or_else(|_| PathBuf::from("/verif"))
}

impl Findings {
    pub fn load() -> Result<Findings, String> {
        let p = root().join("known_findings.txt");
        Self::load_from(&p)
    }

    pub fn load_from(p: &Path) -> Result<Findings, String> {
        let mut f = Findings::default();
        let text = match std::fs::read_to_string(p) {
            Ok(t) => t,
            Err(_) => return Ok(f),
        };
        for (ln, line) in text.lines().enumerate() {
            let line = line.trim();
            if line.is_empty() || line.starts_with('#') {
                continue;
            }
            if let Some(rest) = line.strip_prefix("known:") {
                let mut property = None;
                let mut sig = None;
                let mut witness = None;
                let mut words = vec![];
                for w in rest.split_whitespace() {
                    if let Some(v) = w.strip_prefix("property=") {
                        if property.is_none() {
                            property = Some(v.to_string());
                            continue;
                        }
                    }
                    if let Some(v) = w.strip_prefix("sig=") {
                        if sig.is_none() {
                            sig = Some(v.to_string());
                            continue;
                        }
                    }
                    if let Some(v) = w.strip_prefix("witness=") {
                        if witness.is_none() {
                            witness = Some(root().join(v));
                            continue;
                        }
                    }
                    words.push(w);
                }
                let (property, sig) = match (property, sig) {
                    (Some(p), Some(s)) => (p, s),
                    _ => {
                        return Err(format!(
                            "known_findings.txt:{}: known: line needs property= and sig=",
                            ln + 1
                        ))
                    }
                };
                f.known.push(Known {
                    property,
                    sig,
                    witness,
                    text: words.join(" "),
                });
            } else if let Some(rest) = line.strip_prefix("fixed:") {
                let mut property = String::new();
                let mut words = vec![];
                for w in rest.split_whitespace() {
                    if let Some(v) = w.strip_prefix("property=") {
                        if property.is_empty() {
                            property = v.to_string();
                            continue;
                        }
                    }
                    words.push(w);
                }
                f.fixed.push((property, words.join(" ")));
            } else {
                return Err(format!(
                    "known_findings.txt:{}: unrecognised line",
                    ln + 1
                ));
            }
        }
        Ok(f)
    }

    pub fn sigs_for(&self, property: &str) -> Vec<String> {
        self.known
            .iter()
            .filter(|k| k.property == property)
            .map(|k| k.sig.clone())
            .collect()
    }
}
