//! Lexical renderer: abstract document -> XML text, with every spelling choice
//! drawn from the case source and the byte offset of every item recorded.
//! The renderer, not xot, computes what the text denotes (`expected`).

use crate::engine::Src;
use crate::model::scope::{self, Scope};
use crate::model::{AElem, ANode, QName, XML_NS};

#[derive(Clone, Debug, PartialEq, Eq)]
pub enum ItemKind {
    ElementStart,
    ElementEnd,
    AttrName(QName),
    AttrValue(QName),
    Text,
    Comment,
    PiTarget,
    PiContent,
}

#[derive(Clone, Debug)]
pub struct SpanRec {
    /// child-index path in the expected tree (root document = [])
    pub path: Vec<usize>,
    pub kind: ItemKind,
    pub start: usize,
    pub end: usize,
}

#[derive(Clone, Copy, Debug)]
pub struct Style {
    /// false = one canonical spelling (used where only the tree matters)
    pub lexical: bool,
    /// fragment renderings carry no XML declaration / BOM
    pub fragment: bool,
    /// allow CR / CRLF line ends and literal whitespace variants
    pub line_ends: bool,
    pub cdata: bool,
    /// empty `<![CDATA[]]>` sections after a non-empty part of a text run (they extend the span of the text node)
    pub empty_cdata: bool,
    pub prolog: bool,
}

impl Style {
    pub fn plain() -> Self {
        Style { lexical: false, fragment: false, line_ends: false, cdata: false, empty_cdata: false, prolog: false }
    }
    pub fn rich() -> Self {
        Style { lexical: true, fragment: false, line_ends: true, cdata: true, empty_cdata: false, prolog: true }
    }
}

pub struct Rendered {
    pub text: String,
    pub spans: Vec<SpanRec>,
    pub features: Vec<&'static str>,
    /// the document the text denotes (a Document node)
    pub expected: ANode,
}

struct R<'s, 'a> {
    src: &'s mut Src<'a>,
    st: Style,
    out: String,
    spans: Vec<SpanRec>,
    features: Vec<&'static str>,
}

fn normalize_xml_id(v: &str) -> String {
    // xml:id: leading/trailing spaces removed, runs of spaces collapsed
    v.split(' ').filter(|p| !p.is_empty()).collect::<Vec<_>>().join(" ")
}

impl<'s, 'a> R<'s, 'a> {
    fn feat(&mut self, f: &'static str) {
        if !self.features.contains(&f) {
            self.features.push(f);
        }
    }

    fn ws(&mut self, required: bool) {
        if !self.st.lexical {
            if required {
                self.out.push(' ');
            }
            return;
        }
        let opts: &[&str] = if self.st.line_ends {
            &[" ", "\t", "\n", "\r\n", "\r", "  ", " \n "]
        } else {
            &[" ", "\t", "\n", "  "]
        };
        let w = [10, 2, 2, 2, 1, 2, 1];
        if required {
            let i = self.src.weighted(&w[..opts.len()]);
            if i > 0 {
                self.feat("in_tag_whitespace");
            }
            self.out.push_str(opts[i]);
        } else if self.src.ratio(1, 5) {
            let i = self.src.weighted(&w[..opts.len()]);
            self.feat("in_tag_whitespace");
            self.out.push_str(opts[i]);
        }
    }

    fn charref(&mut self, c: char) {
        self.feat("char_ref");
        let code = c as u32;
        match self.src.choice(4) {
            0 => self.out.push_str(&format!("&#{};", code)),
            1 => self.out.push_str(&format!("&#x{:x};", code)),
            2 => self.out.push_str(&format!("&#x{:X};", code)),
            _ => self.out.push_str(&format!("&#x00{:x};", code)),
        }
    }

    fn entity_or_ref(&mut self, c: char) {
        let name = match c {
            '<' => "lt",
            '&' => "amp",
            '>' => "gt",
            '"' => "quot",
            '\'' => "apos",
            _ => "",
        };
        if !name.is_empty() && (!self.st.lexical || self.src.ratio(2, 3)) {
            if self.st.lexical {
                self.feat("entity");
            }
            self.out.push('&');
            self.out.push_str(name);
            self.out.push(';');
        } else {
            self.charref(c);
        }
    }

    /// write character data of a text node (one or more text / CDATA runs);
    /// returns the span convention xot documents for merged runs
    fn text(&mut self, s: &str) -> (usize, usize) {
        let chars: Vec<char> = s.chars().collect();
        let mut i = 0;
        let mut first_start = None;
        let mut last_end = self.out.len();
        while i < chars.len() {
            // choose run length and kind
            let remaining = chars.len() - i;
            let len = if self.st.lexical && self.st.cdata && remaining > 1 && self.src.ratio(1, 3) {
                1 + self.src.choice(remaining.min(8))
            } else {
                remaining
            };
            let cdata = self.st.lexical && self.st.cdata && self.src.ratio(1, 4)
                // CR cannot be represented inside CDATA
                && !chars[i..i + len].contains(&'\r');
            if cdata {
                // a CDATA run must not contain "]]>" : cut the run before the '>' of such a sequence
                let mut l = len;
                for k in 0..len {
                    if k >= 2 && chars[i + k] == '>' && chars[i + k - 1] == ']' && chars[i + k - 2] == ']' {
                        l = k;
                        break;
                    }
                }
                // and must not end with "]]" followed by '>' in the next run (fine: next run is separate markup)
                if l == 0 {
                    // cannot start a CDATA run here; fall through to a text run of one char
                    let st = self.out.len();
                    self.text_run(&chars[i..i + 1], i == 0, &chars[..i]);
                    first_start.get_or_insert(st);
                    last_end = self.out.len();
                    i += 1;
                    continue;
                }
                self.feat("cdata");
                self.out.push_str("<![CDATA[");
                let st = self.out.len();
                for &c in &chars[i..i + l] {
                    if c == '\n' && self.st.line_ends {
                        // a literal LF right after a literal CR would read as one CRLF
                        let after_cr = self.out.ends_with('\r');
                        match self.src.weighted(&[if after_cr { 0 } else { 2 }, 2, 2]) {
                            0 => self.out.push('\n'),
                            1 => {
                                self.feat("cr_line_end_in_cdata");
                                self.out.push('\r')
                            }
                            _ => {
                                self.feat("crlf_line_end_in_cdata");
                                self.out.push_str("\r\n")
                            }
                        }
                    } else {
                        self.out.push(c);
                    }
                }
                first_start.get_or_insert(st);
                last_end = self.out.len();
                self.out.push_str("]]>");
                i += l;
            } else {
                let st = self.out.len();
                self.text_run(&chars[i..i + len], i == 0, &chars[..i]);
                first_start.get_or_insert(st);
                last_end = self.out.len();
                i += len;
            }
            if self.st.empty_cdata && self.st.lexical && self.src.ratio(1, 6) {
                // an empty CDATA section after a non-empty part: part of the run, its (empty)
                // content is where the text node's span ends if nothing follows
                self.feat("empty_cdata_in_text_run");
                self.out.push_str("<![CDATA[");
                last_end = self.out.len();
                self.out.push_str("]]>");
            }
        }
        (first_start.unwrap_or(last_end), last_end)
    }

    fn text_run(&mut self, run: &[char], _first: bool, before: &[char]) {
        let mut prev2: Vec<char> = before.iter().rev().take(2).rev().copied().collect();
        for &c in run {
            let after_brackets = prev2.len() == 2 && prev2[0] == ']' && prev2[1] == ']';
            match c {
                '<' | '&' => self.entity_or_ref(c),
                '>' => {
                    if after_brackets || !self.st.lexical || self.src.bool() {
                        self.entity_or_ref('>');
                    } else {
                        self.feat("raw_gt");
                        self.out.push('>');
                    }
                }
                '\r' => self.charref('\r'),
                '\n' => {
                    if self.st.lexical && self.st.line_ends {
                        let after_cr = self.out.ends_with('\r');
                        match self.src.weighted(&[if after_cr { 0 } else { 3 }, 3, 3, 1]) {
                            0 => self.out.push('\n'),
                            1 => {
                                self.feat("cr_line_end");
                                self.out.push('\r')
                            }
                            2 => {
                                self.feat("crlf_line_end");
                                self.out.push_str("\r\n")
                            }
                            _ => self.charref('\n'),
                        }
                    } else {
                        self.out.push('\n');
                    }
                }
                _ => {
                    if self.st.lexical && self.src.ratio(1, 12) {
                        self.charref(c);
                    } else {
                        self.out.push(c);
                    }
                }
            }
            if prev2.len() == 2 {
                prev2.remove(0);
            }
            prev2.push(c);
        }
    }

    fn attr_value(&mut self, v: &str, literal_ws_ok: bool) -> (usize, usize) {
        let q = if self.st.lexical && self.src.bool() {
            self.feat("single_quote");
            '\''
        } else {
            '"'
        };
        self.out.push(q);
        let st = self.out.len();
        for c in v.chars() {
            match c {
                '<' | '&' => self.entity_or_ref(c),
                '"' | '\'' => {
                    if c == q || !self.st.lexical || self.src.bool() {
                        self.entity_or_ref(c);
                    } else {
                        self.out.push(c);
                    }
                }
                '\t' | '\n' | '\r' => self.charref(c),
                ' ' => {
                    if self.st.lexical && self.st.line_ends && literal_ws_ok && self.src.ratio(1, 4) {
                        // literal white space is normalised to a space by the parser
                        self.feat("literal_ws_in_attribute");
                        let after_cr = self.out.ends_with('\r');
                        let w = ["\t", "\r", "\r\n", "\n"][self.src.choice(if after_cr { 3 } else { 4 })];
                        self.out.push_str(w);
                    } else {
                        self.out.push(' ');
                    }
                }
                '>' => {
                    if self.st.lexical && self.src.bool() {
                        self.entity_or_ref('>');
                    } else {
                        self.out.push('>');
                    }
                }
                _ => {
                    if self.st.lexical && self.src.ratio(1, 12) {
                        self.charref(c);
                    } else {
                        self.out.push(c);
                    }
                }
            }
        }
        let en = self.out.len();
        self.out.push(q);
        (st, en)
    }

    fn qname(&mut self, q: &QName, sc: &Scope, attribute: bool) -> Result<String, String> {
        if q.ns.is_empty() {
            if !attribute && sc.get("").is_some() {
                return Err(format!("cannot spell no-namespace element {} under a default namespace", q.local));
            }
            return Ok(q.local.clone());
        }
        let mut cands: Vec<String> = scope::prefixes_for(sc, &q.ns);
        if attribute {
            cands.retain(|p| !p.is_empty());
        }
        if cands.is_empty() {
            return Err(format!("no usable prefix for {}", q.show()));
        }
        let p = if self.st.lexical && cands.len() > 1 {
            self.feat("alias_prefix_choice");
            cands[self.src.choice(cands.len())].clone()
        } else {
            // canonical: default prefix if possible, else the first
            cands.iter().find(|p| p.is_empty()).cloned().unwrap_or_else(|| cands[0].clone())
        };
        Ok(if p.is_empty() { q.local.clone() } else { format!("{}:{}", p, q.local) })
    }

    fn element(&mut self, e: &AElem, parent_scope: &Scope, path: &[usize]) -> Result<ANode, String> {
        let sc = scope::push(parent_scope, &e.decls);
        if e.decls.iter().any(|(p, _)| parent_scope.get(p).is_some()) {
            self.feat("shadowing");
        }
        let name = self.qname(&e.name, &sc, false)?;
        self.out.push('<');
        let s0 = self.out.len();
        self.out.push_str(&name);
        self.spans.push(SpanRec { path: path.to_vec(), kind: ItemKind::ElementStart, start: s0, end: self.out.len() });
        // declarations and attributes interleaved, relative order within each kind kept
        let mut di = 0;
        let mut ai = 0;
        let mut exp_attrs = vec![];
        while di < e.decls.len() || ai < e.attrs.len() {
            let take_decl = if di >= e.decls.len() {
                false
            } else if ai >= e.attrs.len() {
                true
            } else if self.st.lexical {
                let b = self.src.ratio(2, 3);
                if !b {
                    self.feat("attribute_before_declaration");
                }
                b
            } else {
                true
            };
            self.ws(true);
            if take_decl {
                let (p, u) = &e.decls[di];
                di += 1;
                if p.is_empty() {
                    self.out.push_str("xmlns");
                } else {
                    self.out.push_str("xmlns:");
                    self.out.push_str(p);
                }
                self.ws(false);
                self.out.push('=');
                self.ws(false);
                // (wide style) literal TAB / LF / CR for a space inside a namespace name
                self.attr_value(u, self.st.empty_cdata);
            } else {
                let (q, v) = &e.attrs[ai];
                ai += 1;
                let an = self.qname(q, &sc, true)?;
                let n0 = self.out.len();
                self.out.push_str(&an);
                self.spans.push(SpanRec { path: path.to_vec(), kind: ItemKind::AttrName(q.clone()), start: n0, end: self.out.len() });
                self.ws(false);
                self.out.push('=');
                self.ws(false);
                let is_id = q.ns == XML_NS && q.local == "id";
                let (v0, v1) = self.attr_value(v, !is_id);
                self.spans.push(SpanRec { path: path.to_vec(), kind: ItemKind::AttrValue(q.clone()), start: v0, end: v1 });
                let ev = if is_id {
                    let n = normalize_xml_id(v);
                    if n != *v {
                        self.feat("xml_id_spaces");
                    }
                    n
                } else {
                    v.clone()
                };
                exp_attrs.push((q.clone(), ev));
            }
        }
        let mut exp_children = vec![];
        let empty_cdata = e.children.is_empty() && self.st.lexical && self.st.cdata && self.src.ratio(1, 10);
        if e.children.is_empty() && !empty_cdata && (!self.st.lexical || self.src.ratio(2, 3)) {
            self.ws(false);
            let s = self.out.len();
            self.out.push_str("/>");
            self.spans.push(SpanRec { path: path.to_vec(), kind: ItemKind::ElementEnd, start: s, end: self.out.len() });
        } else {
            if e.children.is_empty() {
                self.feat("explicit_end_tag_for_empty");
            }
            self.ws(false);
            self.out.push('>');
            if empty_cdata {
                self.feat("empty_cdata");
                self.out.push_str("<![CDATA[]]>");
            }
            self.children(&e.children, &sc, path, &mut exp_children)?;
            let s = self.out.len();
            self.out.push_str("</");
            self.out.push_str(&name);
            self.ws(false);
            self.out.push('>');
            self.spans.push(SpanRec { path: path.to_vec(), kind: ItemKind::ElementEnd, start: s, end: self.out.len() });
        }
        Ok(ANode::Element(AElem {
            name: e.name.clone(),
            decls: e.decls.clone(),
            attrs: exp_attrs,
            children: exp_children,
        }))
    }

    fn children(&mut self, ch: &[ANode], sc: &Scope, path: &[usize], exp: &mut Vec<ANode>) -> Result<(), String> {
        for c in ch {
            let mut p = path.to_vec();
            p.push(exp.len());
            match c {
                ANode::Element(e) => {
                    let n = self.element(e, sc, &p)?;
                    exp.push(n);
                }
                ANode::Text(t) => {
                    if t.is_empty() {
                        continue;
                    }
                    let (s, e) = self.text(t);
                    if let Some(ANode::Text(prev)) = exp.last_mut() {
                        // adjacent text in the source document: one node after parsing
                        prev.push_str(t);
                        let mut pp = path.to_vec();
                        pp.push(exp.len() - 1);
                        if let Some(sp) = self.spans.iter_mut().rev().find(|sp| sp.path == pp && sp.kind == ItemKind::Text) {
                            sp.end = e;
                        }
                    } else {
                        exp.push(ANode::Text(t.clone()));
                        self.spans.push(SpanRec { path: p, kind: ItemKind::Text, start: s, end: e });
                    }
                }
                ANode::Comment(t) => {
                    self.out.push_str("<!--");
                    let s = self.out.len();
                    self.out.push_str(t);
                    self.spans.push(SpanRec { path: p, kind: ItemKind::Comment, start: s, end: self.out.len() });
                    self.out.push_str("-->");
                    exp.push(c.clone());
                }
                ANode::PI(t, d) => {
                    self.out.push_str("<?");
                    let s = self.out.len();
                    self.out.push_str(t);
                    self.spans.push(SpanRec { path: p.clone(), kind: ItemKind::PiTarget, start: s, end: self.out.len() });
                    match d {
                        Some(d) => {
                            self.ws(true);
                            let s = self.out.len();
                            self.out.push_str(d);
                            self.spans.push(SpanRec { path: p, kind: ItemKind::PiContent, start: s, end: self.out.len() });
                        }
                        None => {
                            if self.st.lexical && self.src.ratio(1, 6) {
                                self.out.push(' ');
                            }
                        }
                    }
                    self.out.push_str("?>");
                    exp.push(c.clone());
                }
                other => return Err(format!("cannot render {:?} as content", other)),
            }
        }
        Ok(())
    }
}

/// Render a Document (well-formed document or fragment) or a single element.
pub fn render(src: &mut Src, doc: &ANode, st: Style) -> Result<Rendered, String> {
    let mut r = R { src, st, out: String::new(), spans: vec![], features: vec![] };
    let base = scope::base_scope();
    let expected = match doc {
        ANode::Document(ch) => {
            if !st.fragment && st.lexical && st.prolog {
                if r.src.ratio(1, 8) {
                    r.feat("bom");
                    r.out.push('\u{feff}');
                }
                if r.src.ratio(1, 3) {
                    r.feat("xml_declaration");
                    let q = if r.src.bool() { '"' } else { '\'' };
                    r.out.push_str(&format!("<?xml version={}1.0{}", q, q));
                    if r.src.bool() {
                        let enc = ["UTF-8", "utf-8", "UTF-8"][r.src.choice(3)];
                        r.out.push_str(&format!(" encoding={}{}{}", q, enc, q));
                    }
                    if r.src.ratio(1, 3) {
                        r.out.push_str(&format!(" standalone={}{}{}", q, ["yes", "no"][r.src.choice(2)], q));
                    }
                    if r.src.ratio(1, 4) {
                        r.out.push(' ');
                    }
                    r.out.push_str("?>");
                }
            }
            let mut exp = vec![];
            if st.fragment {
                r.children(ch, &base, &[], &mut exp)?;
            } else {
                // top-level items of a document may be separated by white space
                for c in ch {
                    if st.lexical && r.src.ratio(1, 4) {
                        r.feat("top_level_whitespace");
                        let w = [" ", "\n", "\r\n", "\t"][r.src.choice(4)];
                        r.out.push_str(w);
                    }
                    r.children(std::slice::from_ref(c), &base, &[], &mut exp)?;
                }
                if st.lexical && r.src.ratio(1, 4) {
                    r.feat("top_level_whitespace");
                    r.out.push('\n');
                }
            }
            ANode::Document(exp)
        }
        ANode::Element(e) => {
            let n = r.element(e, &base, &[0])?;
            ANode::Document(vec![n])
        }
        other => return Err(format!("cannot render {:?}", other)),
    };
    Ok(Rendered { text: r.out, spans: r.spans, features: r.features, expected })
}

/// canonical rendering with no random choices
pub fn render_plain(doc: &ANode, fragment: bool) -> Result<String, String> {
    let mut src = Src::from_bytes(&[]);
    let st = Style { fragment, ..Style::plain() };
    render(&mut src, doc, st).map(|r| r.text)
}
