//! Lexical renderer: abstract document -> XML text (placeholder, filled in with C02)
