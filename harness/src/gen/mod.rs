//! Generators: every random decision is drawn from a `Src`.

pub mod render;

use crate::engine::Src;
use crate::model::scope::{self, Scope};
use crate::model::{AElem, ANode, QName, XML_NS};

pub const XHTML: &str = "http://www.w3.org/1999/xhtml";
pub const MATHML: &str = "http://www.w3.org/1998/Math/MathML";
pub const SVG: &str = "http://www.w3.org/2000/svg";

#[derive(Clone, Copy, Debug, PartialEq, Eq)]
pub enum Alpha {
    /// the full XML Char mix of the design (TAB, LF, CR, markup, quotes, ]]>, NBSP, non-BMP ...)
    Full,
    /// like Full but without CR / TAB / LF (for oracles that must not depend on line-end handling)
    NoCtl,
    /// biased to runs of ']' and '>'
    Brackets,
    /// whitespace and a few letters (C18)
    Space,
    /// two letters only (small scope)
    Tiny,
    /// characters that ISO-8859-1 and windows-1252 encode identically
    Latin1,
    /// characters that windows-1252 encodes in 0x80..0x9F (three UTF-8 bytes each), in long runs
    Cp1252,
}

const FULL: &[(&str, u32)] = &[
    ("a", 10),
    ("b", 6),
    ("Z", 3),
    (" ", 6),
    ("\t", 3),
    ("\n", 4),
    ("\r", 4),
    ("<", 4),
    ("&", 4),
    (">", 4),
    ("\"", 3),
    ("'", 3),
    ("]", 4),
    ("]]>", 3),
    ("\u{a0}", 2),
    ("\u{85}", 2),
    ("\u{2028}", 2),
    ("é", 2),
    ("\u{d7ff}", 1),
    ("\u{e000}", 1),
    ("\u{fffd}", 1),
    ("\u{1F600}", 2),
    ("-", 2),
    ("?", 1),
    ("0", 1),
    (";", 1),
    ("#", 1),
];

const NOCTL: &[(&str, u32)] = &[
    ("a", 10),
    ("b", 6),
    (" ", 5),
    ("<", 4),
    ("&", 4),
    (">", 4),
    ("\"", 3),
    ("'", 3),
    ("]", 3),
    ("]]>", 2),
    ("\u{a0}", 2),
    ("é", 2),
    ("\u{1F600}", 2),
    ("-", 1),
];

const BRACKETS: &[(&str, u32)] = &[
    ("]", 12),
    (">", 10),
    ("]]>", 4),
    ("a", 4),
    ("<", 2),
    ("&", 2),
    (" ", 1),
    ("[", 1),
    ("\n", 1),
];

const SPACE: &[(&str, u32)] = &[
    (" ", 10),
    ("\n", 6),
    ("\t", 4),
    ("\r", 3),
    ("x", 4),
    ("\u{a0}", 3),
    ("\u{2003}", 2),
    ("\u{85}", 2),
    ("\u{2028}", 2),
];

const TINY: &[(&str, u32)] = &[("x", 1), (" ", 1)];

const LATIN1: &[(&str, u32)] = &[
    ("a", 8),
    ("b", 4),
    (" ", 4),
    ("\n", 3),
    ("<", 3),
    ("&", 3),
    (">", 2),
    ("\"", 2),
    ("'", 2),
    ("]", 2),
    ("\u{a0}", 2),
    ("é", 2),
    ("ÿ", 1),
    ("\t", 1),
    ("\r", 1),
    // Latin-1 byte pairs that happen to be valid UTF-8 sequences (C3 A9, C2 A0)
    ("Ã©", 4),
    ("Â\u{a0}", 3),
];

const CP1252: &[(&str, u32)] = &[
    ("a", 2),
    (" ", 1),
    ("\u{20ac}", 6),
    ("\u{201c}\u{201d}", 3),
    ("\u{2026}\u{2013}\u{2014}\u{2122}", 3),
    ("\u{0152}\u{0153}\u{0160}\u{0161}\u{0178}\u{017d}\u{017e}\u{0192}\u{02c6}\u{02dc}\u{2018}\u{2019}\u{201a}\u{201e}\u{2020}\u{2021}\u{2022}\u{2030}\u{2039}\u{203a}", 2),
    // a long run: the decoded text is three times as long as the bytes
    ("\u{20ac}\u{20ac}\u{20ac}\u{20ac}\u{20ac}\u{20ac}\u{20ac}\u{20ac}\u{20ac}\u{20ac}\u{20ac}\u{20ac}\u{20ac}\u{20ac}\u{20ac}\u{20ac}\u{20ac}\u{20ac}\u{20ac}\u{20ac}\u{20ac}\u{20ac}\u{20ac}\u{20ac}\u{20ac}\u{20ac}\u{20ac}\u{20ac}\u{20ac}\u{20ac}\u{20ac}\u{20ac}\u{20ac}\u{20ac}\u{20ac}\u{20ac}\u{20ac}\u{20ac}\u{20ac}\u{20ac}\u{20ac}\u{20ac}\u{20ac}\u{20ac}\u{20ac}\u{20ac}\u{20ac}\u{20ac}\u{20ac}\u{20ac}\u{20ac}\u{20ac}\u{20ac}\u{20ac}\u{20ac}\u{20ac}\u{20ac}\u{20ac}\u{20ac}\u{20ac}\u{20ac}\u{20ac}\u{20ac}\u{20ac}\u{20ac}\u{20ac}\u{20ac}\u{20ac}\u{20ac}\u{20ac}\u{20ac}\u{20ac}\u{20ac}\u{20ac}\u{20ac}\u{20ac}\u{20ac}\u{20ac}\u{20ac}\u{20ac}\u{20ac}\u{20ac}\u{20ac}\u{20ac}\u{20ac}\u{20ac}\u{20ac}\u{20ac}\u{20ac}\u{20ac}\u{20ac}\u{20ac}\u{20ac}\u{20ac}\u{20ac}\u{20ac}\u{20ac}\u{20ac}\u{20ac}\u{20ac}\u{20ac}\u{20ac}\u{20ac}\u{20ac}\u{20ac}\u{20ac}\u{20ac}\u{20ac}\u{20ac}\u{20ac}\u{20ac}\u{20ac}\u{20ac}\u{20ac}\u{20ac}\u{20ac}\u{20ac}\u{20ac}\u{20ac}\u{20ac}", 14),
    ("é", 1),
    ("<", 1),
    ("&", 1),
];

fn table(a: Alpha) -> &'static [(&'static str, u32)] {
    match a {
        Alpha::Full => FULL,
        Alpha::NoCtl => NOCTL,
        Alpha::Brackets => BRACKETS,
        Alpha::Space => SPACE,
        Alpha::Tiny => TINY,
        Alpha::Latin1 => LATIN1,
        Alpha::Cp1252 => CP1252,
    }
}

pub fn gen_text(src: &mut Src, a: Alpha, max_items: usize) -> String {
    let t = table(a);
    let w: Vec<u32> = t.iter().map(|x| x.1).collect();
    // length: favour short strings
    let n = if max_items <= 2 {
        src.choice(max_items + 1)
    } else {
        let lens: Vec<u32> = (0..=max_items)
            .map(|i| if i == 0 { 2 } else if i <= 3 { 6 } else { 2 })
            .collect();
        src.weighted(&lens)
    };
    let mut s = String::new();
    for _ in 0..n {
        s.push_str(t[src.weighted(&w)].0);
    }
    s
}

pub fn gen_text_nonempty(src: &mut Src, a: Alpha, max_items: usize) -> String {
    let mut s = gen_text(src, a, max_items);
    if s.is_empty() {
        s.push_str(table(a)[0].0);
    }
    s
}

#[derive(Clone, Copy, Debug, PartialEq, Eq)]
pub enum Names {
    /// generic XML names incl. non-ASCII and punctuation
    Xml,
    /// HTML element names in mixed case + a few unknown ones (C19)
    Html,
    /// a, b
    Tiny,
    /// like Xml but restricted to Latin-1 letters
    Latin,
}

const XML_LOCALS: &[&str] = &["a", "b", "c", "é", "名", "x-1", "y.z", "_u", "A"];
const HTML_LOCALS: &[&str] = &[
    "p", "div", "br", "BR", "Br", "img", "IMG", "hr", "input", "span", "b", "em", "script",
    "SCRIPT", "style", "Style", "pre", "title", "textarea", "ul", "li", "table", "td", "html",
    "body", "head", "meta", "link", "a", "svg", "math", "foo", "x-y", "col", "wbr", "basefont",
];
const TINY_LOCALS: &[&str] = &["a", "b"];
const LATIN_LOCALS: &[&str] = &["a", "b", "c", "é", "x-1", "y.z", "_u", "A"];

pub const URIS_XML: &[&str] = &["", "urn:a", "urn:b", "http://x/?a=1&b=2", "urn:c"];
pub const URIS_HTML: &[&str] = &["", XHTML, SVG, MATHML, "urn:f", "https://www.w3.org/1999/xhtml"];
pub const URIS_TINY: &[&str] = &["", "u"];

pub const PREFIXES: &[&str] = &["", "p", "q", "r", "n0", "n1"];
pub const PREFIXES_TINY: &[&str] = &["", "p"];
/// with multi-byte prefixes (byte offsets != character offsets in qualified names)
// (round 13) prefixes that merely START like the reserved xml prefix
pub const PREFIXES_WIDE: &[&str] = &["", "p", "q", "r", "n0", "n1", "é", "пр", "名", "xmlish", "XML", "Xml2", "xmlns2"];

#[derive(Clone, Copy, Debug, PartialEq, Eq)]
pub enum Scoping {
    /// every namespaced name has a usable binding; no-ns elements are protected by xmlns=""
    Well,
    /// any subset of declarations
    Free,
    /// no declarations at all
    None,
}

#[derive(Clone, Copy, Debug)]
pub struct TreeOpts {
    pub max_nodes: usize,
    pub max_depth: usize,
    pub alpha: Alpha,
    pub attr_alpha: Alpha,
    pub names: Names,
    pub scoping: Scoping,
    pub comments: bool,
    pub pis: bool,
    pub attrs: bool,
    /// URI pool may include the awkward one containing & and ?
    pub odd_uris: bool,
    /// probability weight of xml:space / xml:id attributes
    pub xml_attrs: bool,
    /// allow empty and adjacent text nodes (history forests)
    pub raw_text: bool,
    /// generate xml:id attributes (unique after normalisation, decorated with spaces)
    pub xml_ids: bool,
    /// re-declare in-scope bindings and add alias prefixes (material for deduplication)
    pub redundant_decls: bool,
    /// prefix pool includes non-ASCII prefixes, local names include id / lang / space / xmlnsx
    /// (names that look like the special xml:* attributes and declarations without being them)
    pub wide_prefixes: bool,
    /// explicit xmlns:xml="http://www.w3.org/XML/1998/namespace" declarations (legal; a parser must keep
    /// them, xot's serializer never writes the xml prefix — so only the parse direction uses this)
    pub xml_prefix_decls: bool,
}

impl TreeOpts {
    pub fn xml(max_nodes: usize) -> Self {
        TreeOpts {
            max_nodes,
            max_depth: 8,
            alpha: Alpha::Full,
            attr_alpha: Alpha::Full,
            names: Names::Xml,
            scoping: Scoping::Well,
            comments: true,
            pis: true,
            attrs: true,
            odd_uris: false,
            xml_attrs: true,
            raw_text: false,
            xml_ids: false,
            redundant_decls: false,
            wide_prefixes: false,
            xml_prefix_decls: false,
        }
    }
    pub fn tiny(max_nodes: usize) -> Self {
        TreeOpts {
            max_nodes,
            max_depth: 4,
            alpha: Alpha::Tiny,
            attr_alpha: Alpha::Tiny,
            names: Names::Tiny,
            scoping: Scoping::None,
            comments: true,
            pis: false,
            attrs: true,
            odd_uris: false,
            xml_attrs: false,
            raw_text: false,
            xml_ids: false,
            redundant_decls: false,
            wide_prefixes: false,
            xml_prefix_decls: false,
        }
    }
}

/// XML_LOCALS plus names that look like the `xml:*` attributes / declarations without being them
const XML_LOCALS_WIDE: &[&str] = &["a", "b", "c", "é", "名", "x-1", "y.z", "_u", "A", "id", "lang", "space", "xmlnsx", "Id", "pa", "qa", "pb", "xmlid"];

fn locals(n: Names) -> &'static [&'static str] {
    match n {
        Names::Xml => XML_LOCALS,
        Names::Html => HTML_LOCALS,
        Names::Tiny => TINY_LOCALS,
        Names::Latin => LATIN_LOCALS,
    }
}

fn uris(o: &TreeOpts) -> Vec<&'static str> {
    match o.names {
        Names::Xml => {
            let mut v: Vec<&'static str> = URIS_XML.iter().copied().filter(|u| o.odd_uris || !u.contains('&')).collect();
            if o.wide_prefixes {
                // a namespace name with a space: the renderer may spell it as a literal TAB / LF / CR,
                // which attribute-value normalisation turns back into a space
                v.push("urn:s p");
                // ... and one with a double quote, an apostrophe and a TAB
                v.push("urn:q\"t'\tz");
            }
            v
        }
        Names::Html => URIS_HTML.to_vec(),
        Names::Tiny => URIS_TINY.to_vec(),
        Names::Latin => URIS_XML.iter().copied().filter(|u| o.odd_uris || !u.contains('&')).collect(),
    }
}

fn prefixes(o: &TreeOpts) -> &'static [&'static str] {
    match o.names {
        Names::Tiny => PREFIXES_TINY,
        _ if o.wide_prefixes => PREFIXES_WIDE,
        _ => PREFIXES,
    }
}

pub fn gen_qname(src: &mut Src, o: &TreeOpts, attribute: bool) -> QName {
    let ls = if o.wide_prefixes && matches!(o.names, Names::Xml) { XML_LOCALS_WIDE } else { locals(o.names) };
    let us = uris(o);
    let local = ls[src.choice(ls.len())];
    // names without namespace are the common case
    let mut w: Vec<u32> = us.iter().map(|_| 2).collect();
    w[0] = if attribute { 10 } else { 5 };
    let ns = if o.scoping == Scoping::None && !matches!(o.names, Names::Tiny) {
        ""
    } else {
        us[src.weighted(&w)]
    };
    // (wide pool, round 15) the local name xmlns: an element may be called that in any namespace, an
    // attribute only in a namespace (p:xmlns="v" is an ordinary attribute, not a declaration)
    let local = if o.wide_prefixes && matches!(o.names, Names::Xml) && (!attribute || !ns.is_empty()) && src.ratio(1, 12) { "xmlns" } else { local };
    QName::new(ns, local)
}

pub fn gen_comment(src: &mut Src, a: Alpha) -> String {
    let mut s = gen_text(src, a, 4);
    // XML comments: no "--", no trailing "-", no CR (would be normalised)
    while s.contains("--") {
        s = s.replace("--", "-");
    }
    if s.ends_with('-') {
        s.push('c');
    }
    // a literal CR in a comment cannot be escaped; whether it is "verbatim" is not
    // something the properties define, so comments stay clear of it
    s.replace('\r', "r")
}

pub fn gen_pi(src: &mut Src, a: Alpha) -> (String, Option<String>) {
    const TARGETS: &[&str] = &["pi", "t", "xml-stylesheet", "T.1"];
    let t = TARGETS[src.choice(TARGETS.len())].to_string();
    let d = if src.bool() {
        let mut d = gen_text(src, a, 4);
        while d.contains("?>") {
            d = d.replace("?>", "?");
        }
        let d = d.replace('\r', "r");
        let d = d.trim_start_matches(|c| c == ' ' || c == '\t' || c == '\n');
        if d.is_empty() {
            None
        } else {
            Some(d.to_string())
        }
    } else {
        None
    };
    (t, d)
}

struct G<'o> {
    o: &'o TreeOpts,
    budget: usize,
    fresh: usize,
    ids: usize,
}

fn pick_unused_prefix(
    src: &mut Src,
    g: &mut G,
    own: &[(String, String)],
    scope_now: &Scope,
    uri: &str,
    allow_empty: bool,
) -> String {
    let ps = prefixes(g.o);
    let cands: Vec<&str> = ps
        .iter()
        .copied()
        .filter(|p| allow_empty || !p.is_empty())
        .filter(|p| !own.iter().any(|(op, _)| op == p))
        .filter(|p| match scope_now.get(*p) {
            None => true,
            Some(u) => u == uri,
        })
        .collect();
    if cands.is_empty() {
        g.fresh += 1;
        format!("g{}", g.fresh)
    } else {
        cands[src.choice(cands.len())].to_string()
    }
}

fn gen_decls(src: &mut Src, g: &mut G) -> Vec<(String, String)> {
    let o = g.o;
    if o.scoping == Scoping::None {
        return vec![];
    }
    let n = src.weighted(&[6, 4, 2, 1]);
    let ps = prefixes(o);
    let us = uris(o);
    let mut out: Vec<(String, String)> = vec![];
    for _ in 0..n {
        let p = ps[src.choice(ps.len())];
        let u = us[src.choice(us.len())];
        if out.iter().any(|(op, _)| op == p) {
            continue;
        }
        if !p.is_empty() && u.is_empty() {
            continue; // xmlns:p="" is not a legal declaration
        }
        if u == XML_NS {
            continue;
        }
        out.push((p.to_string(), u.to_string()));
    }
    // (wide pool) the one legal declaration of the xml prefix, written out explicitly
    if o.xml_prefix_decls && src.ratio(1, 10) {
        let at = src.choice(out.len() + 1);
        out.insert(at, ("xml".to_string(), XML_NS.to_string()));
    }
    out
}

fn gen_attrs(src: &mut Src, g: &mut G) -> Vec<(QName, String)> {
    let o = g.o;
    if !o.attrs {
        return vec![];
    }
    let n = src.weighted(&[6, 4, 2, 1]);
    let mut out: Vec<(QName, String)> = vec![];
    if o.xml_ids && src.ratio(1, 5) {
        g.ids += 1;
        let core = if src.bool() { format!("i{}", g.ids) } else { format!("i{} z", g.ids) };
        let lead = ["", " ", "  "][src.choice(3)];
        let trail = ["", " ", "   "][src.choice(3)];
        let core = if src.ratio(1, 3) { core.replace(' ', "   ") } else { core };
        // (wide pool) white space that is NOT #x20 inside the id: xml:id normalisation leaves it alone
        let core = if o.wide_prefixes && src.ratio(1, 3) { core.replace(' ', ["\t", "\u{a0}", "\u{3000}", " \t ", "\n"][src.choice(5)]) } else { core };
        out.push((QName::new(XML_NS, "id"), format!("{}{}{}", lead, core, trail)));
    }
    for _ in 0..n {
        let q = if o.xml_attrs && src.ratio(1, 8) {
            QName::new(XML_NS, if src.bool() { "space" } else { "lang" })
        } else {
            gen_qname(src, o, true)
        };
        if out.iter().any(|(oq, _)| *oq == q) {
            continue;
        }
        let v = if q.ns == XML_NS && q.local == "space" {
            ["preserve", "default", "other"][src.choice(3)].to_string()
        } else {
            gen_text(src, o.attr_alpha, 4)
        };
        out.push((q, v));
    }
    out
}

fn gen_element(src: &mut Src, g: &mut G, depth: usize, parent_scope: &Scope) -> AElem {
    let o = g.o;
    g.budget = g.budget.saturating_sub(1);
    let name = gen_qname(src, o, false);
    let mut decls = gen_decls(src, g);
    if o.redundant_decls {
        for (p, u) in parent_scope.iter() {
            if p != "xml" && !decls.iter().any(|(dp, _)| dp == p) && src.ratio(1, 3) {
                decls.push((p.clone(), u.clone()));
            }
        }
        if src.ratio(1, 3) {
            let uris: Vec<&String> = parent_scope.iter().filter(|(p, u)| p.as_str() != "xml" && !u.is_empty()).map(|(_, u)| u).collect();
            if !uris.is_empty() {
                let u = uris[src.choice_big(uris.len())].clone();
                let cands: Vec<&str> = prefixes(o)
                    .iter()
                    .copied()
                    .filter(|p| !p.is_empty() && !parent_scope.contains_key(*p) && !decls.iter().any(|(dp, _)| dp == p))
                    .collect();
                if !cands.is_empty() {
                    decls.push((cands[src.choice(cands.len())].to_string(), u));
                }
            }
        }
    }
    let attrs = gen_attrs(src, g);
    if o.scoping == Scoping::Well {
        // element name
        let sc = scope::push(parent_scope, &decls);
        if name.ns.is_empty() {
            if sc.get("").is_some() {
                // protect the no-namespace name
                decls.retain(|(p, _)| !p.is_empty());
                decls.insert(0, (String::new(), String::new()));
            }
        } else if scope::prefixes_for(&sc, &name.ns).is_empty() {
            let p = pick_unused_prefix(src, g, &decls, &sc, &name.ns, true);
            decls.push((p, name.ns.clone()));
        }
        for (q, _) in &attrs {
            if q.ns.is_empty() || q.ns == XML_NS {
                continue;
            }
            let sc = scope::push(parent_scope, &decls);
            if !scope::prefixes_for(&sc, &q.ns).iter().any(|p| !p.is_empty()) {
                let p = pick_unused_prefix(src, g, &decls, &sc, &q.ns, false);
                decls.push((p, q.ns.clone()));
            }
        }
    }
    let sc = scope::push(parent_scope, &decls);
    g.budget = g.budget.saturating_sub(decls.len() + attrs.len());
    let mut children = vec![];
    if depth < o.max_depth && g.budget > 0 {
        let n = src.weighted(&[5, 5, 4, 2, 1, 1]);
        for _ in 0..n {
            if g.budget == 0 {
                break;
            }
            children.push(gen_child(src, g, depth + 1, &sc));
        }
    }
    AElem {
        name,
        decls,
        attrs,
        children,
    }
}

fn gen_child(src: &mut Src, g: &mut G, depth: usize, sc: &Scope) -> ANode {
    let o = g.o;
    let w = [
        6,
        5,
        if o.comments { 1 } else { 0 },
        if o.pis { 1 } else { 0 },
    ];
    match src.weighted(&w) {
        0 => ANode::Element(gen_element(src, g, depth, sc)),
        1 => {
            g.budget = g.budget.saturating_sub(1);
            if o.raw_text {
                ANode::Text(gen_text(src, o.alpha, 5))
            } else {
                ANode::Text(gen_text_nonempty(src, o.alpha, 5))
            }
        }
        2 => {
            g.budget = g.budget.saturating_sub(1);
            ANode::Comment(gen_comment(src, o.alpha))
        }
        _ => {
            g.budget = g.budget.saturating_sub(1);
            let (t, d) = gen_pi(src, o.alpha);
            ANode::PI(t, d)
        }
    }
}

/// an element-rooted tree
pub fn gen_element_tree(src: &mut Src, o: &TreeOpts) -> ANode {
    let mut g = G {
        o,
        budget: o.max_nodes,
        fresh: 0,
        ids: 0,
    };
    let e = gen_element(src, &mut g, 1, &scope::base_scope());
    let n = ANode::Element(e);
    if o.raw_text {
        n
    } else {
        n.normalized()
    }
}

/// a well-formed document: comments/PIs around exactly one element
pub fn gen_document(src: &mut Src, o: &TreeOpts) -> ANode {
    let mut g = G {
        o,
        budget: o.max_nodes,
        fresh: 0,
        ids: 0,
    };
    let mut kids = vec![];
    let misc = |src: &mut Src, g: &mut G, kids: &mut Vec<ANode>| {
        let n = src.weighted(&[8, 2, 1]);
        for _ in 0..n {
            if o.comments && src.bool() {
                kids.push(ANode::Comment(gen_comment(src, o.alpha)));
            } else if o.pis {
                let (t, d) = gen_pi(src, o.alpha);
                kids.push(ANode::PI(t, d));
            }
            g.budget = g.budget.saturating_sub(1);
        }
    };
    misc(src, &mut g, &mut kids);
    kids.push(ANode::Element(gen_element(
        src,
        &mut g,
        1,
        &scope::base_scope(),
    )));
    misc(src, &mut g, &mut kids);
    let d = ANode::Document(kids);
    if o.raw_text {
        d
    } else {
        d.normalized()
    }
}

/// a fragment: any mix of ordinary nodes under a document node
pub fn gen_fragment(src: &mut Src, o: &TreeOpts) -> ANode {
    let mut g = G {
        o,
        budget: o.max_nodes,
        fresh: 0,
        ids: 0,
    };
    let n = src.weighted(&[1, 4, 3, 2, 1]);
    let mut kids = vec![];
    for _ in 0..n {
        if g.budget == 0 {
            break;
        }
        kids.push(gen_child(src, &mut g, 1, &scope::base_scope()));
    }
    let d = ANode::Document(kids);
    if o.raw_text {
        d
    } else {
        d.normalized()
    }
}

/// deep chain / wide fan shapes that uniform generation rarely produces
pub fn gen_shape(src: &mut Src, o: &TreeOpts) -> ANode {
    match src.choice(3) {
        0 => {
            // chain
            let depth = 10 + src.choice(30);
            let mut cur = AElem {
                name: gen_qname(src, o, false),
                ..Default::default()
            };
            for i in 0..depth {
                let mut e = AElem {
                    name: QName::new("", locals(o.names)[i % locals(o.names).len()]),
                    ..Default::default()
                };
                if i % 7 == 3 {
                    e.children.push(ANode::Text("t".into()));
                }
                e.children.push(ANode::Element(cur));
                if i % 5 == 1 {
                    e.children.push(ANode::Comment("c".into()));
                }
                cur = e;
            }
            ANode::Element(cur)
        }
        1 => {
            let width = 10 + src.choice(40);
            let mut e = AElem {
                name: gen_qname(src, o, false),
                ..Default::default()
            };
            for i in 0..width {
                let k = src.choice(4);
                e.children.push(match k {
                    0 => ANode::Text(format!("t{}", i)),
                    1 => ANode::Comment(format!("c{}", i)),
                    _ => ANode::Element(AElem {
                        name: QName::new("", locals(o.names)[i % locals(o.names).len()]),
                        ..Default::default()
                    }),
                });
            }
            ANode::Element(e).normalized()
        }
        _ => gen_element_tree(src, o),
    }
}

/// Turn a well-scoped tree into the layout only the API can build: no-namespace elements lose
/// (3 in 4) the `xmlns=""` that protects them from an inherited default namespace, and
/// namespaced elements (1 in 3) additionally declare their own namespace as the default. All
/// namespaced names keep a usable binding; the serializer has to undeclare the default
/// namespace on the fly for the stripped elements.
pub fn strip_undeclarations(n: &mut ANode, src: &mut Src) {
    if let ANode::Element(e) = n {
        if e.name.ns.is_empty() && src.ratio(3, 4) {
            e.decls.retain(|(p, u)| !(p.is_empty() && u.is_empty()));
        }
        if !e.name.ns.is_empty() && !e.decls.iter().any(|(p, _)| p.is_empty()) && src.ratio(1, 3) {
            e.decls.push((String::new(), e.name.ns.clone()));
        }
    }
    if let Some(ch) = n.children_mut() {
        for c in ch.iter_mut() {
            strip_undeclarations(c, src);
        }
    }
}
