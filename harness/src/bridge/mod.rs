//! The only code that touches xot trees on behalf of the oracles:
//! builders (model -> xot), robust read-back (xot -> model) and the
//! structural invariants of C04.  Every iterator obtained from xot is
//! bounded; exceeding the bound is reported, never waited for.

use std::collections::{HashMap, HashSet};

use xot::{NameId, Node, Value, Xot};

use crate::model::{AElem, ANode, MVal, QName};

pub fn name_id(xot: &mut Xot, q: &QName) -> NameId {
    let ns = xot.add_namespace(&q.ns);
    xot.add_name_ns(&q.local, ns)
}

pub fn qname_of(xot: &Xot, id: NameId) -> QName {
    let (l, n) = xot.name_ns_str(id);
    QName::new(n, l)
}

pub fn mval(xot: &Xot, n: Node) -> MVal {
    match xot.value(n) {
        Value::Document => MVal::Document,
        Value::Element(e) => MVal::Element(qname_of(xot, e.name())),
        Value::Text(t) => MVal::Text(t.get().to_string()),
        Value::Comment(c) => MVal::Comment(c.get().to_string()),
        Value::ProcessingInstruction(p) => {
            MVal::PI(qname_of(xot, p.target()), p.data().map(|s| s.to_string()))
        }
        Value::Attribute(a) => MVal::Attribute(qname_of(xot, a.name()), a.value().to_string()),
        Value::Namespace(ns) => MVal::Namespace(
            xot.prefix_str(ns.prefix()).to_string(),
            xot.namespace_str(ns.namespace()).to_string(),
        ),
    }
}

/// Create a free-standing node for a value (no children).
pub fn new_node(xot: &mut Xot, v: &MVal) -> Node {
    match v {
        MVal::Document => xot.new_document(),
        MVal::Element(q) => {
            let id = name_id(xot, q);
            xot.new_element(id)
        }
        MVal::Text(t) => xot.new_text(t),
        MVal::Comment(t) => xot.new_comment(t),
        MVal::PI(t, d) => {
            let id = name_id(xot, t);
            xot.new_processing_instruction(id, d.as_deref())
        }
        MVal::Attribute(q, v) => {
            let id = name_id(xot, q);
            xot.new_attribute_node(id, v.clone())
        }
        MVal::Namespace(p, u) => {
            let p = xot.add_prefix(p);
            let u = xot.add_namespace(u);
            xot.new_namespace_node(p, u)
        }
    }
}

/// Build an abstract tree with the creation API (top-down, `append`).
/// `handles` receives every node created, in the order
/// element, its namespace nodes, its attribute nodes, its children.
/// Text consolidation must not interfere: callers pass normalised trees or
/// switch consolidation off.
pub fn build(xot: &mut Xot, a: &ANode, handles: &mut Vec<Node>) -> Result<Node, String> {
    match a {
        ANode::Document(children) => {
            let d = xot.new_document();
            handles.push(d);
            for c in children {
                let n = build(xot, c, handles)?;
                xot.append(d, n).map_err(|e| format!("build: append to document: {}", e))?;
            }
            Ok(d)
        }
        ANode::Element(e) => {
            let id = name_id(xot, &e.name);
            let el = xot.new_element(id);
            handles.push(el);
            for (p, u) in &e.decls {
                let p = xot.add_prefix(p);
                let u = xot.add_namespace(u);
                xot.namespaces_mut(el).insert(p, u);
                let n = xot.namespaces(el).get_node(p).ok_or("build: namespace node missing")?;
                handles.push(n);
            }
            for (q, v) in &e.attrs {
                let id = name_id(xot, q);
                xot.attributes_mut(el).insert(id, v.clone());
                let n = xot.attributes(el).get_node(id).ok_or("build: attribute node missing")?;
                handles.push(n);
            }
            for c in &e.children {
                let n = build(xot, c, handles)?;
                xot.append(el, n).map_err(|e| format!("build: append: {}", e))?;
            }
            Ok(el)
        }
        ANode::Text(t) => {
            let n = xot.new_text(t);
            handles.push(n);
            Ok(n)
        }
        ANode::Comment(t) => {
            let n = xot.new_comment(t);
            handles.push(n);
            Ok(n)
        }
        ANode::PI(t, d) => {
            let id = xot.add_name(t);
            let n = xot.new_processing_instruction(id, d.as_deref());
            handles.push(n);
            Ok(n)
        }
        ANode::Attribute(q, v) => {
            let id = name_id(xot, q);
            let n = xot.new_attribute_node(id, v.clone());
            handles.push(n);
            Ok(n)
        }
        ANode::Namespace(p, u) => {
            let p = xot.add_prefix(p);
            let u = xot.add_namespace(u);
            let n = xot.new_namespace_node(p, u);
            handles.push(n);
            Ok(n)
        }
    }
}

/// Bounded collection of an xot iterator: Err when it yields more than `bound` items.
pub fn bounded<T>(it: impl Iterator<Item = T>, bound: usize, what: &str) -> Result<Vec<T>, String> {
    let mut v = Vec::new();
    for x in it {
        if v.len() >= bound {
            return Err(format!(
                "iterator `{}` yielded more than {} items (does not terminate / cyclic structure)",
                what, bound
            ));
        }
        v.push(x);
    }
    Ok(v)
}

/// Robust read-back of the subtree at `n` into an abstract tree, using the
/// public map views and `children`, all bounded.
pub fn read_anode(xot: &Xot, n: Node, budget: &mut usize) -> Result<ANode, String> {
    if *budget == 0 {
        return Err("read-back: tree larger than the bound (cyclic structure?)".into());
    }
    *budget -= 1;
    let lim = *budget + 2;
    match xot.value(n) {
        Value::Document => {
            let ch = bounded(xot.children(n), lim, "children")?;
            let mut out = vec![];
            for c in ch {
                out.push(read_anode(xot, c, budget)?);
            }
            Ok(ANode::Document(out))
        }
        Value::Element(e) => {
            let name = qname_of(xot, e.name());
            let mut decls = vec![];
            for (p, u) in bounded(xot.namespaces(n).iter(), lim, "namespaces.iter")? {
                decls.push((
                    xot.prefix_str(p).to_string(),
                    xot.namespace_str(*u).to_string(),
                ));
            }
            let mut attrs = vec![];
            for (k, v) in bounded(xot.attributes(n).iter(), lim, "attributes.iter")? {
                attrs.push((qname_of(xot, k), v.clone()));
            }
            let ch = bounded(xot.children(n), lim, "children")?;
            let mut children = vec![];
            for c in ch {
                children.push(read_anode(xot, c, budget)?);
            }
            Ok(ANode::Element(AElem {
                name,
                decls,
                attrs,
                children,
            }))
        }
        Value::Text(t) => Ok(ANode::Text(t.get().to_string())),
        Value::Comment(c) => Ok(ANode::Comment(c.get().to_string())),
        Value::ProcessingInstruction(p) => {
            let q = qname_of(xot, p.target());
            let t = if q.ns.is_empty() {
                q.local
            } else {
                format!("{{{}}}{}", q.ns, q.local)
            };
            Ok(ANode::PI(t, p.data().map(|s| s.to_string())))
        }
        Value::Attribute(a) => Ok(ANode::Attribute(
            qname_of(xot, a.name()),
            a.value().to_string(),
        )),
        Value::Namespace(ns) => Ok(ANode::Namespace(
            xot.prefix_str(ns.prefix()).to_string(),
            xot.namespace_str(ns.namespace()).to_string(),
        )),
    }
}

pub fn read(xot: &Xot, n: Node) -> Result<ANode, String> {
    let mut budget = 100_000;
    read_anode(xot, n, &mut budget)
}

// ------------------------------------------------------------------ snapshot

#[derive(Clone, Debug, PartialEq, Eq)]
pub struct SnapNode {
    pub val: MVal,
    pub parent: Option<Node>,
    /// raw child order: namespace nodes, attribute nodes, ordinary children
    pub kids: Vec<Node>,
}

/// The state of every tree reachable from a set of known handles.
#[derive(Clone, Debug, PartialEq, Eq, Default)]
pub struct Snap {
    pub nodes: HashMap<Node, SnapNode>,
    pub roots: Vec<Node>,
}

impl Snap {
    pub fn kids_cat(&self, n: Node, cat: u8) -> Vec<Node> {
        self.nodes[&n]
            .kids
            .iter()
            .copied()
            .filter(|k| self.nodes[k].val.category() == cat)
            .collect()
    }
    pub fn ordinary(&self, n: Node) -> Vec<Node> {
        self.kids_cat(n, 2)
    }
    pub fn to_anode(&self, n: Node) -> ANode {
        let sn = &self.nodes[&n];
        match &sn.val {
            MVal::Document => ANode::Document(
                self.ordinary(n).into_iter().map(|c| self.to_anode(c)).collect(),
            ),
            MVal::Element(q) => ANode::Element(AElem {
                name: q.clone(),
                decls: self
                    .kids_cat(n, 0)
                    .into_iter()
                    .map(|c| match &self.nodes[&c].val {
                        MVal::Namespace(p, u) => (p.clone(), u.clone()),
                        _ => unreachable!(),
                    })
                    .collect(),
                attrs: self
                    .kids_cat(n, 1)
                    .into_iter()
                    .map(|c| match &self.nodes[&c].val {
                        MVal::Attribute(q, v) => (q.clone(), v.clone()),
                        _ => unreachable!(),
                    })
                    .collect(),
                children: self.ordinary(n).into_iter().map(|c| self.to_anode(c)).collect(),
            }),
            MVal::Text(t) => ANode::Text(t.clone()),
            MVal::Comment(t) => ANode::Comment(t.clone()),
            MVal::PI(t, d) => ANode::PI(
                if t.ns.is_empty() {
                    t.local.clone()
                } else {
                    format!("{{{}}}{}", t.ns, t.local)
                },
                d.clone(),
            ),
            MVal::Attribute(q, v) => ANode::Attribute(q.clone(), v.clone()),
            MVal::Namespace(p, u) => ANode::Namespace(p.clone(), u.clone()),
        }
    }
    pub fn show(&self) -> String {
        let mut roots = self.roots.clone();
        roots.sort_by_key(|r| format!("{:?}", r));
        roots
            .iter()
            .map(|r| self.to_anode(*r).show())
            .collect::<Vec<_>>()
            .join(" | ")
    }
}

/// Set of every handle the harness has ever seen, in first-seen order.
#[derive(Clone, Debug, Default)]
pub struct Handles {
    pub all: Vec<Node>,
    set: HashSet<Node>,
}

impl Handles {
    pub fn add(&mut self, n: Node) -> bool {
        if self.set.insert(n) {
            self.all.push(n);
            true
        } else {
            false
        }
    }
    pub fn contains(&self, n: Node) -> bool {
        self.set.contains(&n)
    }
    pub fn len(&self) -> usize {
        self.all.len()
    }
}

/// Take a snapshot of all trees holding a live known handle and check the
/// structural invariants that can be stated on links alone.
/// Returns Err(description) on a structural violation.
pub fn snapshot(xot: &Xot, known: &mut Handles) -> Result<Snap, String> {
    let bound = 4 * known.len() + 64;
    let live: Vec<Node> = known
        .all
        .iter()
        .copied()
        .filter(|h| !xot.is_removed(*h))
        .collect();
    // roots through bounded parent walks
    let mut roots: Vec<Node> = vec![];
    let mut root_set: HashSet<Node> = HashSet::new();
    for h in &live {
        let mut cur = *h;
        let mut steps = 0;
        while let Some(p) = xot.parent(cur) {
            if xot.is_removed(p) {
                return Err(format!(
                    "parent of live node {:?} ({}) is a removed node",
                    cur,
                    mval(xot, cur).show()
                ));
            }
            cur = p;
            steps += 1;
            if steps > bound {
                return Err(format!(
                    "parent chain of {:?} ({}) does not end (cycle)",
                    h,
                    mval(xot, *h).show()
                ));
            }
        }
        if root_set.insert(cur) {
            roots.push(cur);
        }
    }
    let mut snap = Snap::default();
    for r in &roots {
        let edges = bounded(xot.all_traverse(*r), 2 * bound + 2, "all_traverse")?;
        let mut stack: Vec<Node> = vec![];
        for e in edges {
            match e {
                xot::NodeEdge::Start(n) => {
                    if xot.is_removed(n) {
                        return Err(format!("traversal hands out removed node {:?}", n));
                    }
                    if snap.nodes.contains_key(&n) {
                        return Err(format!(
                            "node {:?} ({}) reached twice by traversal",
                            n,
                            mval(xot, n).show()
                        ));
                    }
                    let parent = stack.last().copied();
                    if xot.parent(n) != parent {
                        return Err(format!(
                            "node {:?} ({}) is listed under {:?} but its parent link says {:?}",
                            n,
                            mval(xot, n).show(),
                            parent,
                            xot.parent(n)
                        ));
                    }
                    if let Some(p) = parent {
                        snap.nodes.get_mut(&p).unwrap().kids.push(n);
                    }
                    snap.nodes.insert(
                        n,
                        SnapNode {
                            val: mval(xot, n),
                            parent,
                            kids: vec![],
                        },
                    );
                    stack.push(n);
                }
                xot::NodeEdge::End(n) => {
                    if stack.pop() != Some(n) {
                        return Err(format!("unbalanced traversal edges at {:?}", n));
                    }
                }
            }
        }
        if !stack.is_empty() {
            return Err("traversal ended inside a node".into());
        }
    }
    for h in &live {
        if !snap.nodes.contains_key(h) {
            return Err(format!(
                "handle {:?} reports is_removed == false but is in no tree (its slot now holds {})",
                h,
                mval(xot, *h).show()
            ));
        }
    }
    // register newly discovered handles
    let mut discovered: Vec<Node> = snap.nodes.keys().copied().collect();
    discovered.sort_by_key(|n| format!("{:?}", n));
    for n in discovered {
        known.add(n);
    }
    snap.roots = roots;
    Ok(snap)
}

/// Structural invariants of C04 on a snapshot (plus agreement of the public
/// views with the raw order).
pub fn check_structure(xot: &Xot, snap: &Snap, consolidation_never_off: bool) -> Result<(), String> {
    let lim = snap.nodes.len() + 8;
    for r in &snap.roots {
        if xot.next_sibling(*r).is_some() || xot.previous_sibling(*r).is_some() {
            return Err(format!(
                "parentless node {:?} ({}) has a sibling",
                r,
                snap.nodes[r].val.show()
            ));
        }
        // a raw sibling of another category is invisible to next_sibling; use following
        let fs = bounded(xot.following_siblings(*r), lim, "following_siblings")?;
        if fs.len() > 1 {
            return Err(format!("parentless node {:?} has following siblings", r));
        }
        let ps = bounded(xot.preceding_siblings(*r), lim, "preceding_siblings")?;
        if ps.len() > 1 {
            return Err(format!("parentless node {:?} has preceding siblings", r));
        }
    }
    for (n, sn) in &snap.nodes {
        let k = sn.val.kind();
        use crate::model::Kind;
        // who may have children, and of which kind
        if !sn.kids.is_empty() && !matches!(k, Kind::Document | Kind::Element) {
            return Err(format!("{} node {:?} has children", sn.val.show(), n));
        }
        if k == Kind::Document && sn.parent.is_some() {
            return Err(format!("document node {:?} has a parent", n));
        }
        let mut last_cat = 0u8;
        let mut prev_text = false;
        let mut seen_attr: HashSet<&QName> = HashSet::new();
        let mut seen_pref: HashSet<&String> = HashSet::new();
        for c in &sn.kids {
            let cv = &snap.nodes[c].val;
            let cat = cv.category();
            if cat < last_cat {
                return Err(format!(
                    "under {:?} ({}): {} comes after a node of a later category (order must be namespaces, attributes, children)",
                    n, sn.val.show(), cv.show()
                ));
            }
            last_cat = cat;
            if cat < 2 && k != Kind::Element {
                return Err(format!(
                    "{} occurs under a non-element ({})",
                    cv.show(),
                    sn.val.show()
                ));
            }
            match cv {
                MVal::Attribute(q, _) => {
                    if !seen_attr.insert(q) {
                        return Err(format!(
                            "element {:?} ({}) has two attributes named {}",
                            n,
                            sn.val.show(),
                            q.show()
                        ));
                    }
                }
                MVal::Namespace(p, _) => {
                    if !seen_pref.insert(p) {
                        return Err(format!(
                            "element {:?} ({}) declares prefix {:?} twice",
                            n,
                            sn.val.show(),
                            p
                        ));
                    }
                }
                MVal::Document => {
                    return Err(format!("document node {:?} is a child of {:?}", c, n));
                }
                _ => {}
            }
            let is_text = matches!(cv, MVal::Text(_));
            if is_text && prev_text && consolidation_never_off {
                return Err(format!(
                    "two adjacent text nodes under {:?} ({}) although consolidation was never switched off",
                    n,
                    sn.val.show()
                ));
            }
            prev_text = is_text;
        }
        // public views agree with raw order
        let ord: Vec<Node> = snap.ordinary(*n);
        let got = bounded(xot.children(*n), lim, "children")?;
        if got != ord {
            return Err(format!(
                "children({:?}) disagrees with the raw child list: {:?} vs {:?}",
                n, got, ord
            ));
        }
        if xot.first_child(*n) != ord.first().copied() {
            return Err(format!("first_child({:?}) disagrees with children()", n));
        }
        if xot.last_child(*n) != ord.last().copied() {
            return Err(format!("last_child({:?}) disagrees with children()", n));
        }
        if k == Kind::Element {
            let ns = bounded(xot.namespaces(*n).nodes(), lim, "namespaces.nodes")?;
            if ns != snap.kids_cat(*n, 0) {
                return Err(format!(
                    "namespaces({:?}).nodes() disagrees with the raw child list",
                    n
                ));
            }
            let at = bounded(xot.attributes(*n).nodes(), lim, "attributes.nodes")?;
            if at != snap.kids_cat(*n, 1) {
                return Err(format!(
                    "attributes({:?}).nodes() disagrees with the raw child list",
                    n
                ));
            }
        }
        // sibling links
        for cat in 0..3u8 {
            let same = snap.kids_cat(*n, cat);
            for (i, c) in same.iter().enumerate() {
                let want_next = same.get(i + 1).copied();
                let want_prev = if i > 0 { Some(same[i - 1]) } else { None };
                if xot.next_sibling(*c) != want_next {
                    return Err(format!(
                        "next_sibling({:?}) = {:?}, child list says {:?}",
                        c,
                        xot.next_sibling(*c),
                        want_next
                    ));
                }
                if xot.previous_sibling(*c) != want_prev {
                    return Err(format!(
                        "previous_sibling({:?}) = {:?}, child list says {:?}",
                        c,
                        xot.previous_sibling(*c),
                        want_prev
                    ));
                }
            }
        }
    }
    Ok(())
}


/// Build an abstract tree through a construction order drawn from the case:
/// children left-to-right via `append`, right-to-left via `prepend`,
/// right-to-left via `insert_before`, or all built unattached first and then
/// appended (bottom-up); declarations and attributes through the map views or
/// as free-standing nodes appended afterwards. The abstract tree must be
/// normalised (no empty / adjacent text), so consolidation cannot interfere.
pub fn build_ordered(xot: &mut Xot, a: &ANode, src: &mut crate::engine::Src, orders: &mut Vec<u8>) -> Result<Node, String> {
    let holder = match a {
        ANode::Document(_) => xot.new_document(),
        ANode::Element(e) => {
            let id = name_id(xot, &e.name);
            let el = xot.new_element(id);
            let node_style = src.bool();
            for (p, u) in &e.decls {
                let p = xot.add_prefix(p);
                let u = xot.add_namespace(u);
                if node_style {
                    let n = xot.new_namespace_node(p, u);
                    xot.append_namespace_node(el, n).map_err(|e| e.to_string())?;
                } else {
                    xot.namespaces_mut(el).insert(p, u);
                }
            }
            for (q, v) in &e.attrs {
                let id = name_id(xot, q);
                if node_style {
                    let n = xot.new_attribute_node(id, v.clone());
                    xot.any_append(el, n).map_err(|e| e.to_string())?;
                } else {
                    xot.set_attribute(el, id, v.clone());
                }
            }
            el
        }
        ANode::Text(t) => return Ok(xot.new_text(t)),
        ANode::Comment(t) => return Ok(xot.new_comment(t)),
        ANode::PI(t, d) => {
            let id = xot.add_name(t);
            return Ok(xot.new_processing_instruction(id, d.as_deref()));
        }
        other => return Err(format!("build_ordered: cannot build {:?}", other)),
    };
    let ch = a.children();
    let order = src.choice(4) as u8;
    orders.push(order);
    match order {
        0 => {
            for c in ch {
                let n = build_ordered(xot, c, src, orders)?;
                xot.append(holder, n).map_err(|e| e.to_string())?;
            }
        }
        1 => {
            for c in ch.iter().rev() {
                let n = build_ordered(xot, c, src, orders)?;
                xot.prepend(holder, n).map_err(|e| e.to_string())?;
            }
        }
        2 => {
            let mut next: Option<Node> = None;
            for c in ch.iter().rev() {
                let n = build_ordered(xot, c, src, orders)?;
                match next {
                    Some(nx) => xot.insert_before(nx, n).map_err(|e| e.to_string())?,
                    None => xot.append(holder, n).map_err(|e| e.to_string())?,
                }
                next = Some(n);
            }
        }
        _ => {
            let mut built = vec![];
            for c in ch {
                built.push(build_ordered(xot, c, src, orders)?);
            }
            let mut prev: Option<Node> = None;
            for n in built {
                match prev {
                    Some(p) => xot.insert_after(p, n).map_err(|e| e.to_string())?,
                    None => xot.append(holder, n).map_err(|e| e.to_string())?,
                }
                prev = Some(n);
            }
        }
    }
    Ok(holder)
}
